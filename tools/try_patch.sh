#!/bin/sh
# usage: tools/try_patch.sh <patch.diff> <prop> [<prop>...]   -- apply to /repo, run quick checks, always revert
P=$1; shift
git -C /repo apply "$P" || { echo "patch does not apply"; exit 9; }
for id in "$@"; do
  cd /verif && VERIF_EVIDENCE_DIR=/tmp/try_evidence ./check $id > /tmp/try_$id.out 2>&1; echo "$id exit=$? :: $(grep -E 'VIOLATION|UNDECIDED|ENGINE' /tmp/try_$id.out | head -4 | tr '\n' '|')"
done
git -C /repo checkout -- .

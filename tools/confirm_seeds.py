#!/usr/bin/env python3
"""Confirm sub-agent seeds in scratch worktrees: patch applies, 43 tests pass, demo fails with / passes without.
usage: confirm_seeds.py <seed_out_dir> <dest_seeded_dir> [ids...]"""
import json, os, subprocess, sys, shutil, concurrent.futures as cf
SRC, DST = sys.argv[1], sys.argv[2]
only = sys.argv[3:]
PY = "/venv/bin/python"
def sh(cmd, cwd, env=None, timeout=600):
    e = dict(os.environ); e.update(env or {})
    p = subprocess.run(cmd, shell=True, cwd=cwd, env=e, capture_output=True, text=True, timeout=timeout)
    return p.returncode, (p.stdout + p.stderr)[-1500:]
def work(job):
    pid, k, wt = job
    src = os.path.join(SRC, pid, k)
    patch = os.path.join(src, "patch.diff")
    res = {"property": pid, "variant": k}
    sh("git checkout -q -- . && git clean -fdq", wt)
    env = {"PYTHONPATH": wt}
    rc, out = sh(f"{PY} {src}/demo.py", wt, env); res["demo_clean_exit"] = rc
    rc, out = sh(f"git apply {patch}", wt); res["applies"] = rc == 0
    if rc != 0:
        res["error"] = out; return res
    rc, out = sh(f"{PY} -m pytest -q -p no:cacheprovider 2>&1 | tail -3", wt, env); res["tests"] = out.strip().splitlines()[-1] if out.strip() else ""
    rc, out = sh(f"{PY} {src}/demo.py", wt, env); res["demo_patched_exit"] = rc; res["demo_patched_tail"] = out[-600:]
    sh("git checkout -q -- . && git clean -fdq", wt)
    res["confirmed"] = res["applies"] and "43 passed" in res["tests"] and res["demo_clean_exit"] == 0 and res["demo_patched_exit"] != 0
    return res
jobs = []
ids = sorted(d for d in os.listdir(SRC) if os.path.isdir(os.path.join(SRC, d)) and (not only or d in only))
wts = []
for i in range(6):
    wt = f"/tmp/wt/confirm{i}"
    if not os.path.isdir(wt):
        subprocess.check_call(["git", "-C", "/repo", "worktree", "add", "-q", "--detach", wt, "HEAD"])
    wts.append(wt)
alljobs = [(pid, k) for pid in ids for k in sorted(os.listdir(os.path.join(SRC, pid))) if os.path.exists(os.path.join(SRC, pid, k, "patch.diff"))]
results = []
def runner(i):
    out = []
    for j, (pid, k) in enumerate(alljobs):
        if j % len(wts) == i:
            out.append(work((pid, k, wts[i])))
    return out
with cf.ThreadPoolExecutor(len(wts)) as ex:
    for r in ex.map(runner, range(len(wts))):
        results += r
for r in sorted(results, key=lambda r: (r["property"], r["variant"])):
    print(r["property"], r["variant"], "CONFIRMED" if r.get("confirmed") else "NOT-CONFIRMED", r.get("tests"), r.get("demo_clean_exit"), r.get("demo_patched_exit"), r.get("error", "")[:100])
    if r.get("confirmed"):
        d = os.path.join(DST, f"{r['property']}-{r['variant']}")
        os.makedirs(d, exist_ok=True)
        for f in ("patch.diff", "demo.py", "notes.md"):
            shutil.copy(os.path.join(SRC, r["property"], r["variant"], f), d)
        meta = {"breaks_property": r["property"], "source": "independent sub-agent given only the property text and a scratch worktree",
                "confirmed_by": "tools/confirm_seeds.py in a scratch worktree of /repo HEAD: patch applies; pytest = " + r["tests"] +
                                f"; demo.py exit {r['demo_clean_exit']} on the clean tree and {r['demo_patched_exit']} with the patch",
                "needs_to_manifest": "see notes.md", "demo_output_with_patch": r.get("demo_patched_tail", "")}
        json.dump(meta, open(os.path.join(d, "meta.json"), "w"), indent=1)
for wt in wts:
    subprocess.call(["git", "-C", "/repo", "worktree", "remove", "--force", wt])

#!/bin/sh
# usage: tools/try_seeds.sh <seed-prefix> <prop>...   e.g. tools/try_seeds.sh C01 C01 C04
PFX=$1; shift
for d in /verif/seeded/$PFX-*; do
  echo "--- $(basename $d)"
  /verif/tools/try_patch.sh $d/patch.diff "$@"
done

#!/usr/bin/env python3-vt
"""print the slowest obligations of a module set (robustness margin check)"""
import sys, os
sys.path.insert(0, "/verif")
from pyvc import driver
mods = sys.argv[1].split(","); vm = sys.argv[2].split(",") if len(sys.argv) > 2 else None
ctx, loaded, results = driver.run_modules(mods, {"verify_modules": vm}, jobs=16)
obs = [(o["time"], o["status"], o["backend"], r["label"], o["name"]) for r in results for o in r["obligations"]]
obs.sort(reverse=True)
for t in obs[:12]:
    print(f"{t[0]:8.3f}s {t[1]:7} {t[2]:22} {t[3]} :: {t[4][:110]}")
print("obligations", len(obs), "total solver s", round(sum(o[0] for o in obs), 1), "backends", {b: sum(1 for o in obs if o[2] == b) for b in set(o[2] for o in obs)})

#!/bin/sh
# run every claimed quick check on the current (clean) tree, validate the evidence files; prints one line per property
cd /verif
if [ -n "$(git -C /repo status --porcelain --untracked-files=no)" ]; then echo "/repo has uncommitted changes - refusing"; exit 9; fi
for id in $(python3-vt -c "import json; print(' '.join(c['property_id'] for c in json.load(open('MANIFEST.json'))['checks']))"); do
  out=$(./check $id --tier ${1:-quick} 2>&1); rc=$?
  echo "$id exit=$rc :: $(echo "$out" | tail -1 | cut -c1-150)"
  echo "$out" | grep -E "^(VIOLATION|UNDECIDED|ENGINE|KNOWN)" | cut -c1-200 | head -5
done
python3-vt - <<'PY'
import json, jsonschema, glob
sch = json.load(open('/root/.vp/EVIDENCE.schema.json'))
for f in sorted(glob.glob('/verif/evidence/*.json')):
    e = json.load(open(f)); jsonschema.validate(e, sch)
    c = e['coverage']
    assert c['obligations'] == c['discharged'], (f, c['obligations'], c['discharged'])
print("evidence files valid:", len(glob.glob('/verif/evidence/*.json')))
PY

#!/usr/bin/env python3
"""Run every behaviour-preserving refactoring in /verif/refactors/<id>/patch.diff against the quick checks of the properties
anchored in the files it touches.  Expected: exit 0 (held) or exit 2 (undecided: the contracts no longer fit the text),
NEVER exit 1 (a false alarm).  Applies each patch to /repo and ALWAYS reverts it; writes refactors/MATRIX.json / MATRIX.md."""
import json, os, re, subprocess, sys
V = "/verif"
only = sys.argv[1:]
props = [json.loads(l) for l in open(f"{V}/properties.jsonl")]
rows = []
for d in sorted(os.listdir(f"{V}/refactors")):
    p = f"{V}/refactors/{d}"
    if not os.path.isfile(f"{p}/patch.diff") or (only and d not in only):
        continue
    files = re.findall(r"^\+\+\+ b/(\S+)", open(f"{p}/patch.diff").read(), flags=re.M)
    pids = sorted({q["id"] for q in props if any(f in q["anchors"]["files"] for f in files)})
    if subprocess.call(["git", "-C", "/repo", "apply", f"{p}/patch.diff"]) != 0:
        rows.append({"refactor": d, "result": "patch does not apply"}); continue
    res = {}
    try:
        t = subprocess.run("cd /repo && /venv/bin/python -m pytest -q -p no:cacheprovider 2>&1 | tail -1", shell=True, capture_output=True, text=True).stdout.strip()
        for pid in pids:
            r = subprocess.run([f"{V}/check", pid], capture_output=True, text=True, timeout=1500, cwd=V, env=dict(os.environ, VERIF_EVIDENCE_DIR="/tmp/try_evidence"))
            vio = [l[:200] for l in r.stdout.splitlines() if l.startswith("VIOLATION")]
            und = [l[:200] for l in r.stdout.splitlines() if l.startswith("UNDECIDED")]
            res[pid] = {"exit": r.returncode, "violations": vio[:3], "undecided": und[:3]}
    finally:
        subprocess.call(["git", "-C", "/repo", "checkout", "--", "."])
    rows.append({"refactor": d, "files": files, "tests": t, "note": open(f"{p}/notes.md").read().strip()[:300] if os.path.exists(f"{p}/notes.md") else "",
                 "checks": res, "false_alarm": any(v["exit"] == 1 for v in res.values())})
    print(d, {k: v["exit"] for k, v in res.items()}, "FALSE ALARM" if rows[-1]["false_alarm"] else "", flush=True)
if only and os.path.exists(f"{V}/refactors/MATRIX.json"):
    old = {r["refactor"]: r for r in json.load(open(f"{V}/refactors/MATRIX.json"))}
    old.update({r["refactor"]: r for r in rows})
    rows = [old[k] for k in sorted(old)]
json.dump(rows, open(f"{V}/refactors/MATRIX.json", "w"), indent=1)
with open(f"{V}/refactors/MATRIX.md", "w") as f:
    f.write("| refactoring | what | checks run (exit codes) | false alarm |\n|---|---|---|---|\n")
    for r in rows:
        codes = ", ".join(k + ":" + str(v["exit"]) for k, v in r.get("checks", {}).items())
        note = r.get("note", "")[:120].replace("|", "/").replace("\n", " ")
        f.write("| " + r["refactor"] + " | " + note + " | " + codes + " | " + ("YES" if r.get("false_alarm") else "no") + " |\n")
print("false alarms:", [r["refactor"] for r in rows if r.get("false_alarm")])

#!/usr/bin/env python3
"""Run every seeded fault against the quick check of its property; write seeded/MATRIX.json and seeded/MATRIX.md.
Applies each patch to /repo and ALWAYS reverts it; evidence of these runs goes to /tmp/try_evidence."""
import json, os, re, subprocess, sys, time
V = "/verif"
only = sys.argv[1:]
rows = []
for d in sorted(os.listdir(f"{V}/seeded")):
    p = f"{V}/seeded/{d}"
    if not os.path.isdir(p) or (only and d not in only):
        continue
    prop = json.load(open(f"{p}/meta.json"))["breaks_property"]
    if subprocess.call(["git", "-C", "/repo", "apply", f"{p}/patch.diff"]) != 0:
        rows.append({"seed": d, "property": prop, "result": "patch does not apply"}); continue
    t0 = time.time()
    try:
        env = dict(os.environ, VERIF_EVIDENCE_DIR="/tmp/try_evidence")
        r = subprocess.run([f"{V}/check", prop], capture_output=True, text=True, timeout=1500, env=env, cwd=V)
        out, rc = r.stdout, r.returncode
    except subprocess.TimeoutExpired:
        out, rc = "", "timeout"
    finally:
        subprocess.call(["git", "-C", "/repo", "checkout", "--", "."])
    vio = [l for l in out.splitlines() if l.startswith("VIOLATION")]
    obl = []
    for l in vio:
        m = re.search(r"replay=\S+/([^/]+)\.json( no-failing-input-found)?", l)
        if m:
            obl.append((m.group(1)[:110], m.group(2) is None))
    rows.append({"seed": d, "property": prop, "exit": rc, "wall_s": round(time.time() - t0, 1),
                 "violations": len(vio), "reproduced_natively": any(x[1] for x in obl), "deductive_obligation_failed": any(not o[0].startswith("standin__") for o in obl),
                 "standin_caught": any(o[0].startswith("standin__") for o in obl), "first_obligations": [o[0] for o in obl[:3]],
                 "undecided": len([l for l in out.splitlines() if l.startswith("UNDECIDED")])})
    print(rows[-1]["seed"], rows[-1].get("exit"), rows[-1].get("violations"), flush=True)
if only and os.path.exists(f"{V}/seeded/MATRIX.json"):      # partial run: merge into the existing matrix
    old = {r["seed"]: r for r in json.load(open(f"{V}/seeded/MATRIX.json"))}
    old.update({r["seed"]: r for r in rows})
    rows = [old[k] for k in sorted(old)]
json.dump(rows, open(f"{V}/seeded/MATRIX.json", "w"), indent=1)
with open(f"{V}/seeded/MATRIX.md", "w") as f:
    f.write("| seed | property | exit | failing named obligation (deductive) | bounded stand-in | replayed natively | first failing obligation(s) |\n|---|---|---|---|---|---|---|\n")
    for r in rows:
        f.write(f"| {r['seed']} | {r['property']} | {r.get('exit')} | {'yes' if r.get('deductive_obligation_failed') else 'no'} | {'yes' if r.get('standin_caught') else 'no'} | "
                f"{'yes' if r.get('reproduced_natively') else 'no'} | {'; '.join(r.get('first_obligations', []))[:200]} |\n")
print("done")

#!/usr/bin/env python3-vt
"""For every property: the functions of its anchored files that are under a verified contract in SOME sidecar but are not
verified (or only with foreign tags) when that property's check runs."""
import sys, os, json
sys.path.insert(0, "/verif")
from pyvc import driver
from contracts import REGISTRY
props = {json.loads(l)["id"]: json.loads(l) for l in open("/verif/properties.jsonl")}
allc = {}
import glob, importlib
for f in glob.glob("/verif/contracts/*.py"):
    n = os.path.basename(f)[:-3]
    if n == "__init__": continue
    m = importlib.import_module("contracts." + n)
    for cn, d in getattr(m, "CONTRACTS", {}).items():
        if d.get("kind", "repo") == "repo" and d.get("verify", True):
            allc.setdefault(d.get("file", getattr(m, "FILE", None)), set()).add(d.get("source", cn))
for pid in sorted(REGISTRY):
    reg = REGISTRY[pid]
    groups = reg.get("module_groups") or [reg["modules"]]
    run, tagged = set(), set()
    for g in groups:
        ctx, loaded, tasks, nlem = driver.plan(g)
        vm = reg.get("verify_modules")
        if vm and any(m in vm for m in g):
            tasks = [t for t in tasks if ctx.contracts[t[0]].origin in vm]
        for cn, recv in tasks:
            c = ctx.contracts[cn]
            run.add((c.file, c.source))
            names = list(c.ensures) + list(c.ensures_raise) + list(c.site_asserts) + [k for l in c.loops.values() for k in list(l.get("inv", {})) + list(l.get("body_post", {}))]
            if any((not driver.tags_of(k)) or pid in driver.tags_of(k) for k in names) or not names:
                tagged.add((c.file, c.source))
    miss = sorted(s for f in props[pid]["anchors"]["files"] for s in allc.get(f, ()) if (f, s) not in run)
    fore = sorted(s for f in props[pid]["anchors"]["files"] for s in allc.get(f, ()) if (f, s) in run and (f, s) not in tagged)
    print(pid, "not verified in this run:", miss, "| verified but every clause tagged for other properties:", fore)

import ast, json, sys, os, glob
sys.path.insert(0,'/verif')
import importlib
srcs = {}
for f in glob.glob('/verif/contracts/*.py'):
    n = os.path.basename(f)[:-3]
    if n == '__init__': continue
    m = importlib.import_module('contracts.'+n)
    for cn, d in getattr(m,'CONTRACTS',{}).items():
        if d.get('kind','repo') == 'repo' and d.get('verify', True):
            file = d.get('file', getattr(m,'FILE',None))
            srcs.setdefault(file, set()).add(d.get('source', cn))
files = set()
for l in open('/verif/properties.jsonl'):
    files |= set(json.loads(l)['anchors']['files'])
for f in sorted(files):
    tree = ast.parse(open('/repo/'+f).read())
    defs = []
    def walk(node, prefix):
        for n in node.body:
            if isinstance(n, (ast.FunctionDef,)):
                q = prefix + n.name
                defs.append((q, n.end_lineno - n.lineno + 1))
                walk(n, q + '.') if False else None
            elif isinstance(n, ast.ClassDef):
                walk(n, prefix + n.name + '.')
    walk(tree, '')
    have = srcs.get(f, set())
    # property getters are named X.prop or X.prop.__get__
    missing = [(q, ln) for q, ln in defs if q not in have and q + '.__get__' not in have and not any(h.startswith(q + '.') for h in have)]
    print(f"{f}: {len(defs) - len(missing)}/{len(defs)} functions under contract; missing: {[f'{q}({ln})' for q, ln in missing]}")

"""C08 - magicbot/inject.py: get_injection_requests / find_injections (pure functions over ordered maps).

Objects are references (falsy values such as 0 or '' are non-None references whose truthiness is an uninterpreted
predicate), types are references, isinstance is an uninterpreted relation: the contracts therefore hold for every
robot definition as far as these two functions are concerned."""
FILE = "magicbot/inject.py"
PROPS = ["C08"]

MACROS = {
    # the object injection picks for attribute n of component cname
    "pick(inj, cname, n)": "inj[n] if (has(inj, n) and inj[n] is not None) else (inj[cname + '_' + n] if has(inj, cname + '_' + n) else None)",
    "wanted(h, comp, n)": "has(h, n) and not startswith(n, '_') and not (comp is not None and has(comp.attrs, n))",
    "unwrapped(t)": "t.__origin__ if t.__origin__ is not None else t",
}
CLASSES = {
    "PyObj": {"fields": {}},
    "TypeObj": {"fields": {"__origin__": "Ref:TypeObj"}},
    "InjTarget": {"fields": {"attrs": "Map[Str,Ref:PyObj]"}},
}
CONTRACTS = {
    "inject.hasattr": {"kind": "external", "params": {"obj": "Ref:InjTarget", "name": "Str"}, "returns": "Bool",
                       "ensures": {"hasattr(component, n): the attribute already has a value (instance or class level)": "result == has(obj.attrs, name)"},
                       "note": "hasattr on the component (reflection); attrs abstracts 'has a value already'"},
    "get_injection_requests": {
        "site_asserts_in": {"MagicRobot._create_component": {"C08.K1 constructor parameters are requested under the component's own attribute name (the '<component>_<param>' prefix)": "cname == L_name and component is None"},
                            "MagicRobot._setup_vars": {"C08.K3 attributes are requested under the component's name, for the instance itself": "cname == L_cname and component is L_component"}},
        "params": {"type_hints": "Map[Str,Ref:TypeObj]", "cname": "Str", "component": "Ref:InjTarget"}, "defaults": {"component": None},
        "returns": "Map[Str,Ref:TypeObj]", "raises": True, "local_sorts": {"requests": "Map[Str,Ref:TypeObj]"},
        "requires": {"type_hints is a proper dict": "wf_map(type_hints)", "hint values exist": "forall(k, Str, implies(has(type_hints, k), type_hints[k] is not None))"},
        "modifies": [],
        "loops": {0: {"inv": {
            "requests holds exactly the wanted names among the processed ones": "forall(k, Str, has(requests, k) == (wanted(type_hints, component, k) and exists(j, Int, 0 <= j and j < __i and keys(type_hints)[j] == k)))",
            "each with its annotation unwrapped to the generic origin, a real type": "forall(k, Str, implies(has(requests, k), requests[k] is unwrapped(type_hints[k]) and is_type(requests[k])))",
            "requests is a proper dict": "wf_map(requests)",
            "no private name met so far when there is no instance": "implies(component is None, forall(j, Int, implies(0 <= j and j < __i, not startswith(keys(type_hints)[j], '_'))))",
        }}},
        "ensures": {
            "C08.Q1 exactly the public annotated attributes that have no value yet are requested (private names and attributes that already have a value are left alone)":
                "forall(k, Str, has(result, k) == wanted(type_hints, component, k))",
            "C08.Q2 each request carries the annotated type (generic aliases unwrapped to their origin), which is a real type":
                "forall(k, Str, implies(has(result, k), result[k] is unwrapped(type_hints[k]) and is_type(result[k])))",
            "a proper dict again": "wf_map(result)",
            "C08.Q3 constructor injection (no instance yet) accepts no private parameter": "implies(component is None, forall(k, Str, implies(has(type_hints, k), not startswith(k, '_'))))",
        },
        "ensures_raise": {"C08.Q4 startup only fails for a private __init__ parameter or a non-type annotation":
                          "exists(k, Str, has(type_hints, k) and ((component is None and startswith(k, '_')) or not is_type(unwrapped(type_hints[k]))))"},
    },
    "find_injections": {
        "site_asserts_in": {"MagicRobot._create_component": {"C08.K1 constructor parameters are looked up under the component's own attribute name": "cname == L_name and same_map(injectables, L_injectables)"},
                            "MagicRobot._setup_vars": {"C08.K3 attributes are looked up under the component's name in the robot's injectables": "cname == L_cname and same_map(injectables, L_injectables)"}},
        "params": {"requests": "Map[Str,Ref:TypeObj]", "injectables": "Map[Str,Ref:PyObj]", "cname": "Str"},
        "returns": "Map[Str,Ref:PyObj]", "raises": "MagicInjectError", "local_sorts": {"to_inject": "Map[Str,Ref:PyObj]"},
        "requires": {"requests is a proper dict": "wf_map(requests)"},
        "modifies": [],
        "loops": {0: {"inv": {
            "to_inject holds exactly the processed names": "forall(k, Str, has(to_inject, k) == exists(j, Int, 0 <= j and j < __i and keys(requests)[j] == k))",
            "each with the very object the robot stores under the name (else under '<component>_<name>'), of the requested type":
                "forall(k, Str, implies(has(to_inject, k), to_inject[k] is pick(injectables, cname, k) and to_inject[k] is not None and isinstance(to_inject[k], requests[k])))",
        }}},
        "ensures": {
            "C08.F1 every requested attribute is delivered": "forall(k, Str, has(result, k) == has(requests, k))",
            "C08.F2 the delivered object is the very object stored on the robot under the same name, or if there is none the one under '<component>_<attribute>' (falsy values included)":
                "forall(k, Str, implies(has(result, k), result[k] is pick(injectables, cname, k) and result[k] is not None))",
            "C08.F3 the delivered object is an instance of the annotated type": "forall(k, Str, implies(has(result, k), isinstance(result[k], requests[k])))",
        },
        "ensures_raise": {"C08.F4 startup fails with an injection error exactly when some requested attribute has no such object or one of the wrong type":
                          "exists(k, Str, has(requests, k) and (pick(injectables, cname, k) is None or not isinstance(pick(injectables, cname, k), requests[k])))"},
    },
}
DYN_GETATTR = {("get_injection_requests", "hasattr"): "inject.hasattr"}
ASSUMPTIONS = [
    "type_hints / requests are proper dicts (distinct keys, insertion order); hasattr/isinstance are reflection (uninterpreted predicates)",
    "what typing.get_type_hints returns for a class and which robot attributes _collect_injectables gathers are reflection externals (MagicRobot side)",
]

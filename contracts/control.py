"""C19 - Toggle / _SteadyDebounce / ButtonDebouncer / PeriodicFilter / SimpleWatchdog."""
import ast

PROPS = ["C19"]
FILE = "robotpy_ext/control/toggle.py"
F_TOGGLE = "robotpy_ext/control/toggle.py"
F_BD = "robotpy_ext/control/button_debouncer.py"
F_PF = "robotpy_ext/misc/periodic_filter.py"
F_WD = "robotpy_ext/misc/simple_watchdog.py"

SD = "Toggle._SteadyDebounce"

GLOBALS = {"g_last_sample": "Bool", "g_warns": "Int"}

CLASSES = {
    SD: {
        "fields": {"joystick": "Ref:Joystick", "button": "py", "debounce_period": "Real", "latest": "Real", "enabled": "Bool",
                   "g_tprev": "Real"},
        "invariant": {
            "D1 latest is never after the last sample": "self.latest <= self.g_tprev",
            "D2 last sample is not in the future": "self.g_tprev <= g_time",
            "D3 period >= 0": "self.debounce_period >= 0",
            "D4 joystick present": "self.joystick is not None",
        },
    },
    "Sampler": {   # the callable stored in Toggle.joystickget: bound _SteadyDebounce.get (deb != None) or a raw button read
        "fields": {"deb": f"Ref:{SD}"},
        "callable_of": {"method": f"{SD}.get", "link": "deb", "plain": ["Joystick.getRawButton"]},
    },
    "Toggle": {
        "fields": {"joystick": "Ref:Joystick", "joystickget": "Ref:Sampler", "released": "Bool", "toggle": "Bool", "state": "Bool",
                   "g_last_change": "Real"},
        "alias": {"d": "self.joystickget.deb"},
        "invariant": {
            "T0 sampler present": "self.joystickget is not None",
            "C19.TI1 state mirrors toggle (on is the negation of off)": "self.state == self.toggle",
            "TI2 debouncer consistent": "implies(d is not None, d.latest <= d.g_tprev and d.g_tprev <= g_time and d.debounce_period >= 0 and d.joystick is not None)",
            "C19.TI3 a released toggle means the debounce window has elapsed": "implies(d is not None and not self.released, d.g_tprev - d.latest >= d.debounce_period)",
            "C19.TI4 the last change is not after the debouncer's latest press": "implies(d is not None, self.g_last_change <= d.latest)",
        },
    },
    "ButtonDebouncer": {
        "fields": {"joystick": "Ref:Joystick", "buttonnum": "py", "latest": "Real", "debounce_period": "Real", "timer": "dotted:wpilib.Timer"},
        "invariant": {"B0 joystick present": "self.joystick is not None"},
    },
    "LogRecord": {"fields": {"levelno": "Int"}},
    "PeriodicFilter": {
        "fields": {"_period": "Real", "_loggingLoop": "Bool", "_last_log": "Real", "_bypass_level": "Int", "g_last_low": "Real"},
        "invariant": {"C19.PI1 the last low-level pass is not after the last periodic pass": "self.g_last_low <= self._last_log",
                      "PI2 period >= 0": "self._period >= 0"},
    },
    "SimpleWatchdog": {
        "exact": True,
        "fields": {"_get_time": "dotted:wpilib.RobotController.getFPGATime", "_startTime": "Int", "_timeout": "Int", "_expirationTime": "Int",
                   "_lastTimeoutPrintTime": "Int", "_lastEpochsPrintTime": "Int", "_epochs": "Seq[(Str,Int)]", "g_armed": "Bool"},
        "invariant": {"C19.WI1 once enabled/reset, expiration == start + timeout": "implies(self.g_armed, self._expirationTime == self._startTime + self._timeout)"},
    },
}


def _deb_get_post(o):
    """postconditions of _SteadyDebounce.get on object expression `o` (template shared by the real method and the Sampler wrapper)"""
    return {
        "C19.D5 time moves forward, the sample is timestamped": f"g_time >= old(g_time) and {o}.g_tprev == g_time",
        "C19.D6 result: still inside the steady window, or the button is pressed now":
            f"result == ((g_time - old({o}.latest) < {o}.debounce_period) or g_btn)",
        "C19.D7 latest moves to now only on a press outside the window":
            f"{o}.latest == (g_time if (not (g_time - old({o}.latest) < {o}.debounce_period) and g_btn) else old({o}.latest))",
        "D8 period fixed": f"{o}.debounce_period == old({o}.debounce_period) and {o}.joystick is old({o}.joystick)",
    }


_TOGGLE_SAMPLE = {
    "C19.T1 state changes exactly on a released-to-pressed edge of the samples": "(self.toggle != old(self.toggle)) == (g_last_sample and not old(self.released))",
    "C19.T2 the sample is remembered as the previous level": "self.released == g_last_sample",
    "C19.T3 exactly one sample is taken": "g_samples == old(g_samples) + 1",
    "C19.T5 with a debounce period two changes are never less than the period apart":
        "implies(d is not None and self.toggle != old(self.toggle), d.g_tprev - old(self.g_last_change) >= d.debounce_period)",
}
_TOGGLE_MOD = ["self.released", "self.toggle", "self.state", "self.g_last_change", "g_last_sample", "g_samples", "g_time", "g_btn",
               f"{SD}.latest[*]", f"{SD}.g_tprev[*]"]
_TOGGLE_GHOST = {"self.g_last_change": "d.g_tprev if (d is not None and self.toggle != old(self.toggle)) else old(self.g_last_change)"}

CONTRACTS = {
    # ---------------------------------------------------------------- toggle.py
    f"{SD}.__init__": {
        "file": F_TOGGLE, "receivers": [SD], "ctor": True, "inv": True,
        "params": {"joystick": "Ref:Joystick", "button": "py", "period": "Real"},
        "requires": {"period >= 0 (usage assumption)": "period >= 0", "joystick given": "joystick is not None",
                     "clock non-negative": "g_time >= 0"},
        "ghost_exit": {"self.g_tprev": "0"},
        "modifies": ["self.joystick", "self.button", "self.debounce_period", "self.latest", "self.enabled", "self.g_tprev"],
        "ensures": {"C19.D0 starts one period in the past so the first press registers": "self.latest == -period and self.debounce_period == period and self.g_tprev == 0",
                    "joystick kept": "self.joystick is joystick"},
    },
    f"{SD}.get": {
        "file": F_TOGGLE, "receivers": [SD], "inv": True, "params": {}, "returns": "Bool",
        "modifies": ["self.latest", "self.g_tprev", "g_time", "g_btn", "g_samples"],
        "ghost_exit": {"self.g_tprev": "g_time"},
        "ensures": _deb_get_post("self"),
    },
    "Sampler.__call__": {
        "kind": "external", "params": {}, "returns": "Bool",
        "requires": {"debouncer invariant": "implies(self.deb is not None, self.deb.latest <= self.deb.g_tprev and self.deb.g_tprev <= g_time and self.deb.debounce_period >= 0)"},
        "modifies": ["g_last_sample", "g_samples", "g_time", "g_btn", f"{SD}.latest[*]", f"{SD}.g_tprev[*]"],
        "ensures": dict(
            [("the sample", "result == g_last_sample"), ("one sample", "g_samples == old(g_samples) + 1"),
             ("only this debouncer changes", f"forall(x, Ref_{SD}, implies(not (x is self.deb), x.latest == old(x.latest) and x.g_tprev == old(x.g_tprev)))"),
             ("clock monotone", "g_time >= old(g_time)")]
            + [(k, f"implies(self.deb is not None, {v})") for k, v in _deb_get_post("self.deb").items()]),
        "note": "calling the stored callable IS calling the bound Toggle._SteadyDebounce.get (contract verified on the real method) or a raw "
                "joystick.getRawButton read; the link is established in Toggle.__init__ (verified)",
    },
    "Toggle.__init__": {
        "file": F_TOGGLE, "receivers": ["Toggle"], "ctor": True, "inv": True,
        "params": {"joystick": "Ref:Joystick", "button": "py", "debounce_period": "Opt[Real]"},
        "requires": {"period >= 0 (usage assumption)": "implies(debounce_period is not None, debounce_period >= 0)",
                     "joystick given": "joystick is not None", "clock non-negative": "g_time >= 0"},
        "ghost_exit": {"self.g_last_change": "0 - debounce_period if debounce_period is not None else 0"},
        "modifies": ["self.joystick", "self.joystickget", "self.released", "self.toggle", "self.state", "self.g_last_change",
                     f"{SD}.joystick[*]", f"{SD}.debounce_period[*]", f"{SD}.latest[*]", f"{SD}.enabled[*]", f"{SD}.g_tprev[*]", "Sampler.deb[*]"],
        "ensures": {"C19.T0 starts off, treating the button as released": "not self.toggle and not self.state and not self.released",
                    "C19.T0b debounced iff a period is given": "(d is not None) == (debounce_period is not None)",
                    "C19.T0c debouncer uses the given period": "implies(d is not None, d.debounce_period == debounce_period)"},
    },
    "Toggle.get": {
        "file": F_TOGGLE, "receivers": ["Toggle"], "inv": True, "params": {}, "returns": "Bool",
        "modifies": _TOGGLE_MOD, "ghost_exit": _TOGGLE_GHOST,
        "ensures": dict(_TOGGLE_SAMPLE, **{"C19.T4 get() returns the toggle state": "result == self.toggle"}),
    },
    "Toggle.on.__get__": {
        "file": F_TOGGLE, "source": "Toggle.on", "receivers": ["Toggle"], "inv": True, "params": {}, "returns": "Bool",
        "modifies": _TOGGLE_MOD,
        "ensures": dict(_TOGGLE_SAMPLE, **{"C19.T6 on is the toggle state after the sample": "result == self.toggle"}),
    },
    "Toggle.off.__get__": {
        "file": F_TOGGLE, "source": "Toggle.off", "receivers": ["Toggle"], "inv": True, "params": {}, "returns": "Bool",
        "modifies": _TOGGLE_MOD,
        "ensures": dict(_TOGGLE_SAMPLE, **{"C19.T7 off is the negation of the toggle state after the sample": "result == (not self.toggle)"}),
    },
    # ---------------------------------------------------------------- button_debouncer.py
    "ButtonDebouncer.__init__": {
        "file": F_BD, "receivers": ["ButtonDebouncer"], "ctor": True, "inv": True,
        "params": {"joystick": "Ref:Joystick", "buttonnum": "py", "period": "Real"},
        "requires": {"joystick given": "joystick is not None"},
        "modifies": ["self.joystick", "self.buttonnum", "self.latest", "self.debounce_period", "self.timer"],
        "ensures": {"C19.B0 initial state": "self.latest == 0 and self.debounce_period == period"},
    },
    "ButtonDebouncer.set_debounce_period": {
        "file": F_BD, "receivers": ["ButtonDebouncer"], "inv": True, "params": {"period": "Real"},
        "modifies": ["self.debounce_period"], "ensures": {"period set": "self.debounce_period == period"},
    },
    "ButtonDebouncer.get": {
        "file": F_BD, "receivers": ["ButtonDebouncer"], "inv": True, "params": {}, "returns": "Bool",
        "modifies": ["self.latest", "g_time", "g_btn", "g_samples"],
        "ensures": {
            "C19.B1 True only when the button is pressed": "implies(result, g_btn)",
            "C19.B2 True exactly when pressed and more than a period after the last True (latest)": "result == (g_btn and g_time - old(self.latest) > self.debounce_period)",
            "C19.B3 latest is the time of the last True": "self.latest == (g_time if result else old(self.latest))",
            "C19.B4 one button sample, clock monotone": "g_samples == old(g_samples) + 1 and g_time >= old(g_time)",
            "period untouched": "self.debounce_period == old(self.debounce_period)",
        },
    },
    # ---------------------------------------------------------------- periodic_filter.py
    "PeriodicFilter.__init__": {
        "file": F_PF, "receivers": ["PeriodicFilter"], "ctor": True, "inv": True,
        "params": {"period": "Real", "bypass_level": "Int"},
        "requires": {"period >= 0 (usage assumption)": "period >= 0"},
        "ghost_exit": {"self.g_last_low": "0 - period"},
        "modifies": ["self._period", "self._loggingLoop", "self._last_log", "self._bypass_level", "self.g_last_low"],
        "ensures": {"C19.P0 initial state": "self._period == period and self._last_log == -period and self._bypass_level == bypass_level"},
    },
    "PeriodicFilter._refresh_logger": {
        "file": F_PF, "receivers": ["PeriodicFilter"], "params": {},
        "modifies": ["self._loggingLoop", "self._last_log", "g_mono"],
        "ensures": {"loop flag": "self._loggingLoop == (g_mono - old(self._last_log) > self._period)",
                    "last_log": "self._last_log == (g_mono if g_mono - old(self._last_log) > self._period else old(self._last_log))",
                    "clock": "g_mono >= old(g_mono)"},
    },
    "PeriodicFilter.filter": {
        "file": F_PF, "receivers": ["PeriodicFilter"], "inv": True, "params": {"record": "Ref:LogRecord"}, "returns": "Bool",
        "requires": {"record given": "record is not None"},
        "modifies": ["self._loggingLoop", "self._last_log", "self.g_last_low", "g_mono"],
        "ghost_exit": {"self.g_last_low": "g_mono if (result and record.levelno < self._bypass_level) else old(self.g_last_low)"},
        "ensures": {
            "C19.P1 passes iff a period has elapsed since the last periodic pass or the level reaches the bypass level":
                "truthy(result) == ((g_mono - old(self._last_log) > self._period) or record.levelno >= self._bypass_level)",
            "C19.P2 every record at or above the bypass level passes": "implies(record.levelno >= self._bypass_level, truthy(result))",
            "C19.P3 lower-level records pass at most once per period": "implies(truthy(result) and record.levelno < self._bypass_level, g_mono - old(self.g_last_low) > self._period)",
            "C19.P4 the window restarts at a periodic pass only": "self._last_log == (g_mono if g_mono - old(self._last_log) > self._period else old(self._last_log))",
            "settings untouched": "self._period == old(self._period) and self._bypass_level == old(self._bypass_level)",
        },
    },
    # ---------------------------------------------------------------- simple_watchdog.py
    "SimpleWatchdog.__init__": {
        "file": F_WD, "receivers": ["SimpleWatchdog"], "ctor": True, "inv": True, "params": {"timeout": "Real"},
        "ghost_exit": {"self.g_armed": "False"},
        "modifies": ["self._get_time", "self._startTime", "self._timeout", "self._expirationTime", "self._lastTimeoutPrintTime",
                     "self._lastEpochsPrintTime", "self._epochs", "self.g_armed"],
        "ensures": {"C19.W0 starts disabled with no print recorded": "self._lastEpochsPrintTime == 0 and self._expirationTime == 0 and len(self._epochs) == 0"},
    },
    "SimpleWatchdog.getTime": {
        "file": F_WD, "receivers": ["SimpleWatchdog"], "inv": True, "params": {}, "returns": "Real", "modifies": [],
        "ensures": {"seconds since fed": "result == real(g_now - self._startTime) / 1000000"},
    },
    "SimpleWatchdog.setTimeout": {
        "file": F_WD, "receivers": ["SimpleWatchdog"], "inv": True, "params": {"timeout": "Real"},
        "ghost_exit": {"self.g_armed": "True"},
        "modifies": ["self._epochs", "self._timeout", "self._startTime", "self._expirationTime", "self.g_armed"],
        "ensures": {"C19.W5 restarts the timer with the new timeout": "self._startTime == g_now and self._expirationTime == g_now + self._timeout and len(self._epochs) == 0"},
    },
    "SimpleWatchdog.getTimeout": {
        "file": F_WD, "receivers": ["SimpleWatchdog"], "inv": True, "params": {}, "returns": "Real", "modifies": [],
        "ensures": {"timeout in seconds": "result == real(self._timeout) / 1000000"},
    },
    "SimpleWatchdog.isExpired": {
        "file": F_WD, "receivers": ["SimpleWatchdog"], "inv": True, "params": {}, "returns": "Bool", "modifies": [],
        "ensures": {"C19.W1 expired exactly when more than the timeout has elapsed since the last reset":
                    "implies(self.g_armed, result == (g_now - self._startTime > self._timeout))",
                    "W1b compares with the expiration time": "result == (g_now > self._expirationTime)"},
    },
    "SimpleWatchdog.addEpoch": {
        "file": F_WD, "receivers": ["SimpleWatchdog"], "inv": True, "params": {"epochName": "Str"},
        "modifies": ["self._epochs"], "ensures": {"one epoch appended": "len(self._epochs) == old(len(self._epochs)) + 1"},
    },
    "wd.warning": {
        "kind": "external", "params": {}, "modifies": ["g_warns"], "ensures": {"one warning emitted": "g_warns == old(g_warns) + 1"},
        "note": "logger.warning(...) in simple_watchdog.py is the overrun warning event (its arguments are not evaluated)",
    },
    "SimpleWatchdog.printIfExpired": {
        "file": F_WD, "receivers": ["SimpleWatchdog"], "inv": True, "params": {},
        "modifies": ["self._lastEpochsPrintTime", "g_warns"],
        "loops": {0: {"inv": {"warning count fixed inside the epoch loop": "g_warns == old(g_warns) + 1",
                               "print time fixed inside the epoch loop": "self._lastEpochsPrintTime == now"},
                      "unconstrained_ok": ["prev"]}},      # only formatted into the log text
        "ensures": {
            "C19.W2 the overrun warning is emitted iff expired and more than one second after the previous one":
                "(g_warns > old(g_warns)) == (g_now > self._expirationTime and g_now - old(self._lastEpochsPrintTime) > 1000000)",
            "C19.W3 at most one warning per call": "g_warns <= old(g_warns) + 1 and g_warns >= old(g_warns)",
            "C19.W4 the print time moves to now exactly when a warning is emitted":
                "self._lastEpochsPrintTime == (g_now if g_warns > old(g_warns) else old(self._lastEpochsPrintTime))",
        },
    },
    "SimpleWatchdog.reset": {
        "file": F_WD, "receivers": ["SimpleWatchdog"], "inv": True, "params": {},
        "ghost_exit": {"self.g_armed": "True"},
        "modifies": ["self._epochs", "self._startTime", "self._expirationTime", "self.g_armed"],
        "ensures": {"C19.W6 reset restarts the timer now": "self._startTime == g_now and self._expirationTime == g_now + self._timeout and self._timeout == old(self._timeout)"},
    },
    "SimpleWatchdog.enable": {
        "file": F_WD, "receivers": ["SimpleWatchdog"], "inv": True, "params": {},
        "ghost_exit": {"self.g_armed": "True"},
        "modifies": ["self._epochs", "self._startTime", "self._expirationTime", "self.g_armed"],
        "ensures": {"C19.W7 enable restarts the timer now": "self._startTime == g_now and self._expirationTime == g_now + self._timeout and self._timeout == old(self._timeout)",
                    "epochs cleared": "len(self._epochs) == 0"},
    },
    "SimpleWatchdog.disable": {
        "file": F_WD, "receivers": ["SimpleWatchdog"], "inv": True, "params": {}, "modifies": [], "ensures": {},
    },
}

EVENT_CALLS = {(F_WD, "logger.warning"): "wd.warning"}


def _alias_check(relpath, cls, name, target):
    def chk(ctx):
        src = ctx.source(relpath)
        for n in ast.walk(src.tree):
            if isinstance(n, ast.ClassDef) and n.name == cls:
                for b in n.body:
                    if isinstance(b, ast.Assign) and any(isinstance(t, ast.Name) and t.id == name for t in b.targets):
                        ok = isinstance(b.value, ast.Name) and b.value.id == target
                        return ok, f"{cls}.{name} = {ast.unparse(b.value)}"
                    if isinstance(b, ast.FunctionDef) and b.name == name:
                        return False, f"{cls}.{name} is a separate def (not the alias of {target} the contract relies on)"
        return False, f"{cls}.{name} not found"
    return chk


STRUCTURAL = [
    ("C19.S1 truth-testing a Toggle takes a sample: Toggle.__bool__ is get", _alias_check(F_TOGGLE, "Toggle", "__bool__", "get")),
    ("C19.S2 truth-testing a ButtonDebouncer is get()", _alias_check(F_BD, "ButtonDebouncer", "__bool__", "get")),
]

ASSUMPTIONS = [
    "usage assumption: debounce periods are >= 0",
    "a Toggle's private _SteadyDebounce object is only sampled through that Toggle (it is created in Toggle.__init__ and never exported)",
    "ButtonDebouncer: 'the last True' before any True is the initial latest = 0 (FPGA time origin)",
    "PeriodicFilter: records reach filter() one at a time (logging serialises handlers)",
]

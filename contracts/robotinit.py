"""C06 (setup order), C05 (declaration order), C08 (robot side) - MagicRobot._create_components / _setup_vars / _setup_reset_vars.

Reflection (typing.get_type_hints, hasattr(self, m), what _collect_injectables gathers, the constructor call inside
_create_component) is assumed; what _create_components does with it - creation order, all injection before the first
setup(), every setup() exactly once, distinct component objects - is verified for any number of components."""
import z3
from pyvc.sorts import Ref, vref, vbool, vint, map_parts

FILE = "magicbot/magicrobot.py"
PROPS = ["C05", "C06", "C08"]
MR, COMP = "MagicRobot", "Comp"

_robot_has = z3.Function("robot_hasattr", z3.StringSort(), z3.BoolSort())
_hints_of = z3.Function("class_type_hints_key", Ref, Ref)
_K = z3.ArraySort(z3.IntSort(), z3.StringSort())
cntW = z3.Function("count_component_names", _K, z3.IntSort(), z3.IntSort())
_k, _i, _j = z3.Const("ks", _K), z3.Int("i"), z3.Int("j2")
_w = lambda i: z3.And(z3.Not(z3.PrefixOf(z3.StringVal("_"), z3.Select(_k, i))), z3.Not(_robot_has(z3.Select(_k, i))))
AXIOMS = [
    ("count_component_names definition (base)", z3.ForAll([_k], cntW(_k, 0) == 0)),
    ("count_component_names definition (step)", z3.ForAll([_k, _i], z3.Implies(_i >= 0, cntW(_k, _i + 1) == cntW(_k, _i) + z3.If(_w(_i), 1, 0)), patterns=[cntW(_k, _i + 1)])),
    ("count_component_names is monotone, and strictly so across a component name (derived by induction)",
     z3.ForAll([_k, _i, _j], z3.Implies(z3.And(0 <= _i, _i <= _j), z3.And(cntW(_k, _i) <= cntW(_k, _j), cntW(_k, _i) >= 0, z3.Implies(z3.And(_i < _j, _w(_i)), cntW(_k, _i) + 1 <= cntW(_k, _j)))),
               patterns=[z3.MultiPattern(cntW(_k, _i), cntW(_k, _j))])),
]
_map_id = z3.Function("mapping_identity", z3.ArraySort(z3.StringSort(), z3.BoolSort()), z3.IntSort())
_robot_attr = z3.Function("robot_attribute", z3.StringSort(), Ref)
_cls_attr = z3.Function("robot_class_attribute", z3.StringSort(), Ref)
_is_method = z3.Function("inspect_ismethod", Ref, z3.BoolSort())
SPEC_FUNCS = {
    "robot_attr": lambda n: vref(_robot_attr(n.z), "PyObj"), "cls_attr": lambda n: vref(_cls_attr(n.z), "PyObj"), "is_method": lambda o: vbool(_is_method(o.z)),
    "PROPERTY": lambda: vref(z3.Const("class.property", Ref), "PyObj"), "TUNABLE": lambda: vref(z3.Const("class.magic_tunable.tunable", Ref), "PyObj"),
    "map_id": lambda m: vint(_map_id(m.comps[0])),
    "robot_has": lambda n: vbool(_robot_has(n.z)),
    "count_names": lambda m, i: vint(cntW(map_parts(m)[2].comps[1], i.z)),
}
GLOBALS = {"g_hints": "Map[Str,Ref:TypeObj]", "g_seq": "Int", "g_rdir": "Seq[Str]"}
MACROS = {
    "is_comp_name(n)": "not startswith(n, '_') and not robot_has(n)",
    "HINTS()": "g_hints",
    "excluded(r, n)": "exists(i, Int, 0 <= i and i < len(r._exclude_from_injection) and r._exclude_from_injection[i] == n)",
    # which robot attribute names are injectable: public, not excluded, not a property / tunable on the class, not a bound method
    "injectable_name(r, n)": "not startswith(n, '_') and not excluded(r, n) and not isinstance(cls_attr(n), PROPERTY()) and not isinstance(cls_attr(n), TUNABLE()) and not is_method(robot_attr(n))",
}
CLASSES = {
    "InjTarget": {"fields": {"g_injected": "Bool", "logger": "py"}},
    COMP: {"bases": ["InjTarget"], "fields": {"setup": "Ref:SetupHook", "g_name": "Str", "execute": "Ref:ExecFn", "g_ctor_args_key": "Int"}},
    "ExecFn": {"fields": {}},
    "TypeObj": {"fields": {"__init__": "py", "__name__": "Str"}},
    "ModeObj": {"bases": ["InjTarget"], "fields": {"MODE_NAME": "Str", "?setup": "Bool", "g_setup_cnt": "Int"}},
    "SetupHook": {"fields": {"owner": f"Ref:{COMP}", "g_cnt": "Int", "g_last": "Int"}},
    "Selector2": {"fields": {"modes": "Map[Str,Ref:ModeObj]"}},
    "FbGetter": {"fields": {"g_owner": "Ref:PyObj"}}, "FbSetter": {"fields": {}}, "ResetDictObj": {"fields": {"d": "Map[Str,Ref:PyObj]"}},
    MR: {"fields": {"_components": f"Seq[(Str,Ref:{COMP})]", "_feedbacks": "Seq[(Ref:FbGetter,Ref:FbSetter)]", "_automodes": "Ref:Selector2",
                    "_reset_components": f"Seq[(Ref:ResetDictObj,Ref:InjTarget)]", "_exclude_from_injection": "Seq[Str]"}},
}
_SETUP_EV = {"setup counted": "self.g_cnt == old(self.g_cnt) + 1", "serial": "self.g_last == g_seq and g_seq == old(g_seq) + 1"}
CONTRACTS = {
    # ---------------------------------------------------------------- assumed
    "typing.get_type_hints": {"kind": "external", "params": {"cls": "py"}, "returns": "Map[Str,Ref:TypeObj]", "pure_result": "g_hints",
                              "ensures": {"a proper dict of existing annotation objects, base-class annotations first (reflection)": "wf_map(result) and forall(k, Str, implies(has(result, k), result[k] is not None))"},
                              "note": "typing.get_type_hints(cls) of the robot class / of a component class: class annotations, bases first"},
    "rinit.hints_of": {"kind": "external", "params": {"cls": "py"}, "returns": "Map[Str,Ref:TypeObj]",
                       "ensures": {"proper dict": "wf_map(result) and forall(k, Str, implies(has(result, k), result[k] is not None))"}, "note": "typing.get_type_hints(type(component))"},
    "rinit.hasattr": {"kind": "external", "params": {"obj": "py", "name": "Str"}, "returns": "Bool", "ensures": {"hasattr(self, m)": "result == robot_has(name)"}, "note": "hasattr(self, m): the attribute was already set by the user (reflection)"},
    "types.SimpleNamespace.__init__": {"kind": "external", "params": {}, "modifies": [], "ensures": {}},
    "magic_tunable.setup_tunables": {"kind": "external", "cites": ['C09.S1'], "params": {"component": "Ref:PyObj", "cname": "Str", "prefix": "Opt[Str]"}, "modifies": [], "ensures": {},
                                     "site_asserts_in": {f"{MR}._create_components": {
                                         "C09.S4 tunables are bound under ('components', <the component's attribute name>), ('autonomous', <MODE_NAME>) and ('robot', no prefix) - the three documented key families":
                                         "(component is L_self and cname == 'robot' and prefix is None) or "
                                         "(prefix == 'components' and component is L_component and cname == L_cname) or "
                                         "(prefix == 'autonomous' and component is L_mode and cname == L_mode.MODE_NAME)"}}, "note": "setup_tunables: verified under C09 (contracts/tunable.py)"},
    "magic_tunable.collect_feedbacks": {"kind": "external", "cites": ['C11.K3', 'C11.K4'], "params": {"component": "Ref:PyObj", "cname": "Str", "prefix": "Opt[Str]"},
                                        "site_asserts_in": {f"{MR}._create_components": {
                                            "C11.S7 feedbacks are collected for the robot under ('robot', no prefix) and for every component under ('components', <its attribute name>)":
                                            "(component is L_self and cname == 'robot' and prefix is None) or (prefix == 'components' and component is L_component and cname == L_cname)"}}, "returns": "Seq[(Ref:FbGetter,Ref:FbSetter)]", "modifies": [], "allocates": True,
                                        "ensures": {"a list": "len(result) >= 0",
                                                    "C11.K3/K4 (verified in contracts/tunable.py): getters are bound methods of the object, pairwise distinct; setters are new, pairwise distinct objects":
                                                    "forall(a, Int, implies(0 <= a and a < len(result), result[a][0] is not None and result[a][0].g_owner is component and result[a][1] is not None and allocated(result[a][1]) and not old(allocated(result[a][1])))) and "
                                                    "forall(a, Int, forall(b, Int, implies(0 <= a and a < b and b < len(result), not (result[a][0] is result[b][0]) and not (result[a][1] is result[b][1]))))"},
                                        "note": "collect_feedbacks: key derivation and K3/K4 verified under C11 (contracts/tunable.py); restated here (separate class table)"},
    "magic_reset.collect_resets": {"kind": "external", "cites": ['C10.C1'], "params": {"cls": "py"}, "returns": "Ref:ResetDictObj", "ensures": {"a dict; falsy iff empty": "result is not None and truthy(result) == (len(keys(result.d)) > 0)"},
                                   "note": "collect_resets: verified in contracts/reset.py (dict modelled as an object with a map field)"},
    "rinit.dict_update_map": {"kind": "external", "params": {"obj": "Ref:InjTarget", "m": "Map[Str,Ref:PyObj]"}, "modifies": ["obj.attrs"],
                              "ensures": {"dict.update: every key of the mapping is set": "forall(k, Str, implies(has(m, k), has(obj.attrs, k) and obj.attrs[k] is m[k]))",
                                          "dict.update: everything else untouched": "forall(k, Str, implies(not has(m, k), has(obj.attrs, k) == old(has(obj.attrs, k)) and obj.attrs[k] is old(obj.attrs[k])))"},
                              "note": "component.__dict__.update(injections)"},
    "rinit.dict_update_reset": {"kind": "external", "params": {"obj": "Ref:InjTarget", "rd": "Ref:ResetDictObj"}, "modifies": ["obj.attrs"],
                                "ensures": {"dict.update": "forall(k, Str, implies(has(rd.d, k), has(obj.attrs, k) and obj.attrs[k] is rd.d[k])) and forall(k, Str, implies(not has(rd.d, k), has(obj.attrs, k) == old(has(obj.attrs, k)) and obj.attrs[k] is old(obj.attrs[k])))"},
                                "note": "component.__dict__.update(reset_dict)"},
    "rinit.dir": {"kind": "external", "params": {"obj": "py"}, "returns": "Seq[Str]", "pure_result": "g_rdir",
                  "ensures": {"attribute names, each once": "len(result) >= 0 and forall(a, Int, forall(b, Int, implies(0 <= a and a < b and b < len(result), result[a] != result[b])))"},
                  "note": "dir(self): every attribute name of the robot - instance, class-level and inherited (reflection; that inherited names are included is the assumption C08 relies on)"},
    "rinit.getattr_cls": {"kind": "external", "params": {"cls": "py", "name": "Str", "default": "py"}, "returns": "Ref:PyObj", "ensures": {"class attribute or None": "result is cls_attr(name)"}, "note": "getattr(type(self), n, None)"},
    "rinit.getattr_self": {"kind": "external", "params": {"obj": "py", "name": "Str"}, "returns": "Ref:PyObj", "ensures": {"the object stored on the robot under that name": "result is robot_attr(name)"},
                           "note": "getattr(self, n) for a name dir(self) listed (assumed not to raise)"},
    "inspect.ismethod": {"kind": "external", "params": {"o": "Ref:PyObj"}, "returns": "Bool", "ensures": {"bound method?": "result == is_method(o)"}, "note": "inspect.ismethod"},
    f"{MR}._collect_injectables": {
        "receivers": [MR], "params": {}, "returns": "Map[Str,Ref:PyObj]", "modifies": [], "local_sorts": {"injectables": "Map[Str,Ref:PyObj]"},
        "loops": {0: {"inv": {
            "C08.J1 (so far) every injectable name seen maps to the very object stored on the robot": "wf_map(injectables) and forall(j, Int, implies(0 <= j and j < __i and injectable_name(self, g_rdir[j]), has(injectables, g_rdir[j]) and injectables[g_rdir[j]] is robot_attr(g_rdir[j])))",
            "C08.J2 (so far) nothing else is offered": "forall(k, Str, implies(has(injectables, k), injectable_name(self, k) and injectables[k] is robot_attr(k) and exists(j, Int, 0 <= j and j < __i and g_rdir[j] == k)))"}}},
        "ensures": {"a proper dict": "wf_map(result)",
                    "C08.J1 every public robot attribute that dir(self) lists (class-level and inherited ones included) and that is not excluded, not a property / tunable and not a method is offered under its own name as the very object stored on the robot":
                    "forall(j, Int, implies(0 <= j and j < len(g_rdir) and injectable_name(self, g_rdir[j]), has(result, g_rdir[j]) and result[g_rdir[j]] is robot_attr(g_rdir[j])))",
                    "C08.J2 nothing else is offered (private names, excluded names, properties, tunables and methods are not injectable)":
                    "forall(k, Str, implies(has(result, k), injectable_name(self, k) and result[k] is robot_attr(k)))"},
    },
    "rinit.init_hints": {"kind": "external", "params": {"init": "py"}, "returns": "Map[Str,Ref:TypeObj]",
                         "ensures": {"proper dict of annotation objects": "wf_map(result) and forall(k, Str, implies(has(result, k), result[k] is not None))"},
                         "note": "typing.get_type_hints(ctyp.__init__): the constructor's parameter annotations (reflection)"},
    "rinit.construct": {"kind": "external", "params": {"ctyp": "Ref:TypeObj", "kwargs": "Map[Str,Ref:PyObj]"}, "returns": f"Ref:{COMP}", "returns_fresh": True, "raises": True, "modifies": [],
                        "ensures": {"a new instance, not injected yet, setup() not run": "not result.g_injected and implies(result.setup is not None, result.setup.owner is result and result.setup.g_cnt == 0) and result.g_ctor_args_key == map_id(kwargs)"},
                        "note": "ctyp(**injections): instantiation with the injected constructor arguments; returns a NEW object (reflection / user constructor)"},
    "rinit.setattr_robot": {"kind": "external", "params": {"obj": "py", "name": "Str", "val": f"Ref:{COMP}"}, "modifies": [], "ensures": {}, "note": "setattr(self, name, component) on the robot"},
    f"{MR}._create_component": {
        "receivers": [MR], "params": {"name": "Str", "ctyp": "Ref:TypeObj", "injectables": "Map[Str,Ref:PyObj]"},
        "requires": {"class object given": "ctyp is not None"},
        "returns": f"Ref:{COMP}", "returns_fresh": True, "raises": True, "modifies": [],
        "ghost_exit": {"result.g_name": "name"},
        "ensures": {"C08.K2 a new component object, not yet injected, whose setup() has not run, named after the robot attribute":
                    "result is not None and result.g_name == name and not result.g_injected and implies(result.setup is not None, result.setup.owner is result and result.setup.g_cnt == 0)"},
    },
    "SetupHook.__call__": {"kind": "callback", "params": {}, "raises": True, "modifies": ["self.g_cnt", "self.g_last", "g_seq", "InjTarget.attrs[*]"],
                           "site_asserts": {
                               "C06.S1 (also C08) setup() only runs after every component exists and all injection is done":
                                   "forall(j, Int, implies(0 <= j and j < len(L_components), L_components[j][1].g_injected)) and forall(j, Int, implies(0 <= j and j < len(keys(L_self._automodes.modes)), values_at(L_self._automodes.modes, j).g_injected))",
                               "C06.S2 setup() of a component runs at most once": "self.g_cnt == 0"},
                           "ensures": _SETUP_EV, "ensures_raise": _SETUP_EV, "note": "component.setup()"},
    "ModeObj.setup": {"kind": "callback", "params": {}, "raises": True, "modifies": ["self.g_setup_cnt", "InjTarget.attrs[*]"],
                      "ensures": {"counted": "self.g_setup_cnt == old(self.g_setup_cnt) + 1"}, "ensures_raise": {}, "note": "autonomous mode's setup()"},
    # ---------------------------------------------------------------- verified
    f"{MR}._setup_vars": {
        "receivers": [MR], "params": {"cname": "Str", "component": "Ref:InjTarget", "injectables": "Map[Str,Ref:PyObj]"}, "raises": True,
        "requires": {"object given": "component is not None"},
        "modifies": ["component.attrs", "component.g_injected"],
        "ghost_exit": {"component.g_injected": "True"},
        "ensures": {"C08.R1 every public annotated attribute that had no value receives the very robot object of that name (else '<component>_<attribute>'); everything else on the object is untouched":
                    "forall(k, Str, implies(has(component.attrs, k) and not old(has(component.attrs, k)), component.attrs[k] is pick(injectables, cname, k) and component.attrs[k] is not None and not startswith(k, '_'))) and "
                    "forall(k, Str, implies(old(has(component.attrs, k)), has(component.attrs, k) and component.attrs[k] is old(component.attrs[k])))",
                    "marked injected": "component.g_injected"},
    },
    f"{MR}._setup_reset_vars": {
        "receivers": [MR], "params": {"component": "Ref:InjTarget"},
        "requires": {"object given": "component is not None"},
        "modifies": ["component.attrs", "self._reset_components"],
        "ensures": {"C10.V1 every will_reset_to attribute starts at its declared default and the component is registered for the per-iteration reset (only if it has markers)":
                    "(len(self._reset_components) == old(len(self._reset_components)) + 1 and self._reset_components[len(self._reset_components) - 1][1] is component and "
                    "forall(k, Str, implies(has(self._reset_components[len(self._reset_components) - 1][0].d, k), component.attrs[k] is self._reset_components[len(self._reset_components) - 1][0].d[k]))) "
                    "or (len(self._reset_components) == old(len(self._reset_components)) and forall(k, Str, component.attrs[k] is old(component.attrs[k])))",
                    "C10.V2 a registered entry holds an existing dict; entries registered before are kept":
                    "implies(len(self._reset_components) == old(len(self._reset_components)) + 1, self._reset_components[len(self._reset_components) - 1][0] is not None) and "
                    "forall(j, Int, implies(0 <= j and j < old(len(self._reset_components)), self._reset_components[j][0] is old(self._reset_components[j][0]) and self._reset_components[j][1] is old(self._reset_components[j][1])))"},
    },
    f"{MR}._create_components": {
        "receivers": [MR], "params": {}, "raises": True, "local_sorts": {"components": f"Seq[(Str,Ref:{COMP})]"},
        "requires": {"selector present with existing mode objects": "self._automodes is not None and wf_map(self._automodes.modes) and forall(k, Str, implies(has(self._automodes.modes, k), self._automodes.modes[k] is not None))",
                     "a new robot: no reset entries and no feedbacks yet (MagicRobot.__init__ C06.Z0); the robot object exists": "len(self._reset_components) == 0 and len(self._feedbacks) == 0 and allocated(self)"},
        "modifies": ["self._components", f"{MR}._feedbacks[*]", f"{MR}._reset_components[*]", "InjTarget.attrs[*]", "InjTarget.g_injected[*]", "SetupHook.g_cnt[*]", "SetupHook.g_last[*]", "g_seq", "ModeObj.g_setup_cnt[*]"],
        "loops": {
            0: {"inv": {
                "components created so far are new, distinct, existing objects, not injected, setup not run": f"len(components) >= 0 and forall(a, Int, forall(b, Int, implies(0 <= a and a < len(components), "
                    "components[a][1] is not None and allocated(components[a][1]) and not old(allocated(components[a][1])) and not components[a][1].g_injected and implies(components[a][1].setup is not None, components[a][1].setup.owner is components[a][1] and components[a][1].setup.g_cnt == 0) "
                    "and implies(a < b and b < len(components), not (components[a][1] is components[b][1])))))",
                "C05.K1 one component per public, not-yet-set annotated name, in annotation order": "len(components) == count_names(HINTS(), __i) and __i <= len(keys(HINTS())) and "
                    "forall(j, Int, implies(0 <= j and j < __i and is_comp_name(keys(HINTS())[j]), count_names(HINTS(), j) < len(components) and components[count_names(HINTS(), j)][0] == keys(HINTS())[j]))",
                "injectables stays a proper dict": "wf_map(injectables)",
            }, "unconstrained_ok": ["component"]},      # a per-iteration temporary (the later loops rebind it as their target)
            1: {"inv": {"components injected so far": "forall(j, Int, implies(0 <= j and j < __i, components[j][1].g_injected))",
                        "C10.S5 (so far) reset entries: existing dicts, one per component that has markers, pairwise distinct components":
                            "len(self._reset_components) >= 0 and forall(a, Int, implies(0 <= a and a < len(self._reset_components), self._reset_components[a][0] is not None and self._reset_components[a][1] is not None and "
                            "exists(j, Int, 0 <= j and j < __i and self._reset_components[a][1] is components[j][1]))) and "
                            "forall(a, Int, forall(b, Int, implies(0 <= a and a < b and b < len(self._reset_components), not (self._reset_components[a][1] is self._reset_components[b][1]))))",
                        "setup not run yet": "forall(a, Int, implies(0 <= a and a < len(components) and components[a][1].setup is not None, components[a][1].setup.g_cnt == 0))"}},
            2: {"inv": {"all components injected": "forall(j, Int, implies(0 <= j and j < len(components), components[j][1].g_injected))",
                        "modes injected so far": "forall(j, Int, implies(0 <= j and j < __i, values_at(self._automodes.modes, j).g_injected))",
                        "setup not run yet": "forall(a, Int, implies(0 <= a and a < len(components) and components[a][1].setup is not None, components[a][1].setup.g_cnt == 0))"}},
            3: {"inv": {"C11.S6 (so far) feedback pairs: existing getters and setters, both pairwise distinct (each getter is a bound method of the robot or of a component handled so far)": "len(self._feedbacks) >= 0 and forall(a, Int, implies(0 <= a and a < len(self._feedbacks), self._feedbacks[a][0] is not None and self._feedbacks[a][1] is not None and allocated(self._feedbacks[a][1]) and (self._feedbacks[a][0].g_owner is self or exists(j, Int, 0 <= j and j < __i and self._feedbacks[a][0].g_owner is components[j][1])))) and forall(a, Int, forall(b, Int, implies(0 <= a and a < b and b < len(self._feedbacks), not (self._feedbacks[a][0] is self._feedbacks[b][0]) and not (self._feedbacks[a][1] is self._feedbacks[b][1]))))",
                        "components did not exist when robotInit started (hence differ from the robot itself)": "forall(j, Int, implies(0 <= j and j < len(components), not old(allocated(components[j][1])))) and old(allocated(self))",
                        "everything is injected": "forall(j, Int, implies(0 <= j and j < len(components), components[j][1].g_injected)) and forall(j, Int, implies(0 <= j and j < len(keys(self._automodes.modes)), values_at(self._automodes.modes, j).g_injected))",
                        "setup ran exactly once for the components handled so far, not yet for the others": "forall(a, Int, implies(0 <= a and a < len(components) and components[a][1].setup is not None, components[a][1].setup.g_cnt == (1 if a < __i else 0)))"}},
            4: {"inv": {"component setups done": "forall(a, Int, implies(0 <= a and a < len(components) and components[a][1].setup is not None, components[a][1].setup.g_cnt == 1))"}},
        },
        "ensures": {
            "C06.S3 every component's setup() ran exactly once": "forall(a, Int, implies(0 <= a and a < len(self._components) and self._components[a][1].setup is not None, self._components[a][1].setup.g_cnt == 1))",
            "C06.S4 the component list holds new, distinct, existing objects (the well-formedness the per-iteration contracts rely on)":
                "forall(a, Int, forall(b, Int, implies(0 <= a and a < len(self._components), self._components[a][1] is not None and implies(a < b and b < len(self._components), not (self._components[a][1] is self._components[b][1])))))",
            "C11.S6 (W4/W5) the feedback list holds existing getters and setters, both pairwise distinct":
                "forall(a, Int, forall(b, Int, implies(0 <= a and a < len(self._feedbacks), self._feedbacks[a][0] is not None and self._feedbacks[a][1] is not None and "
                "implies(a < b and b < len(self._feedbacks), not (self._feedbacks[a][0] is self._feedbacks[b][0]) and not (self._feedbacks[a][1] is self._feedbacks[b][1])))))",
            "C10.S5 (W7) the reset entries hold existing dicts and pairwise distinct components (each component is reset once per iteration)":
                "forall(a, Int, forall(b, Int, implies(0 <= a and a < len(self._reset_components), self._reset_components[a][0] is not None and self._reset_components[a][1] is not None and "
                "implies(a < b and b < len(self._reset_components), not (self._reset_components[a][1] is self._reset_components[b][1])))))",
            "C05.K2 components are listed in declaration order: one per public, not-yet-set annotated name of the robot class, in the order typing.get_type_hints yields them (base classes first)":
                "len(self._components) == count_names(HINTS(), len(keys(HINTS()))) and forall(j, Int, implies(0 <= j and j < len(keys(HINTS())) and is_comp_name(keys(HINTS())[j]), self._components[count_names(HINTS(), j)][0] == keys(HINTS())[j]))",
        },
    },
}
NAMES = {"dir": ("contract", "rinit.dir"), "property": ("dotted", "property")}
CALL_OVERRIDES = {(f"{MR}._create_component", "typing.get_type_hints"): "rinit.init_hints", (f"{MR}._create_component", "ctyp"): "rinit.construct"}
DYN_GETATTR = {(f"{MR}._collect_injectables", "getattr/3"): "rinit.getattr_cls", (f"{MR}._collect_injectables", "getattr/2"): "rinit.getattr_self", (f"{MR}._create_component", "setattr"): "rinit.setattr_robot", (f"{MR}._create_components", "hasattr"): "rinit.hasattr", (f"{MR}._setup_vars", "__dict__.update"): "rinit.dict_update_map",
               (f"{MR}._setup_reset_vars", "__dict__.update"): "rinit.dict_update_reset"}
ASSUMPTIONS = [
    "typing.get_type_hints(cls) yields the robot class's annotations with base-class annotations first (reflection); hasattr(self, m) depends on the name only",
    "ctyp(**injections) returns a NEW object (user constructor); dir(self) lists every robot attribute name once, inherited and class-level ones included (reflection; exercised by the bounded stand-in)",
    "setup_tunables / collect_feedbacks / collect_resets are used through their contracts verified elsewhere (C09 / C11 / C10)",
]

"""Registry: property id -> sidecar modules, native replay harness, bounded stand-ins."""
PY = "/venv/bin/python"

REGISTRY = {
    "C09": {
        "modules": ["tunable"],
        "level": "proof",
        "level_text": "Repository side of the tunable machinery: setup_tunables binds every public tunable attribute to the entry at the documented key (string formula over prefix/name/subtable/attribute, "
                      "loop invariant over dir(cls)), with the descriptor's topic type, exactly one of set/setDefault per tunable according to writeDefault, in a fresh per-instance table; "
                      "__get__/__set__ go through that table and touch no other entry; key injectivity lemmas; structural check of the type tables. "
                      "Topic-type resolution: tunable.__init__ / __set_name__ (the type hint wins over the default; an empty sequence needs a hint; errors exactly when no type can be found), "
                      "_get_topic_type_for_value and the body of _get_topic_type (scalars first, struct, list/Sequence/tuple aliases -> array topics) are verified over uninterpreted type objects.",
        "level_note": "This is the property where the repository code contributes least: 'reads return the latest value from either side', type strings and set/setDefault semantics are ntcore's behaviour "
                      "(assumed contracts, exercised by the native stand-in with the real ntcore); typing.get_args/get_origin/get_type_hints are assumed contracts, the two lambda constructors in _get_topic_type are abstracted "
                      "as fresh objects carrying the captured struct type, and callers use _get_topic_type as 'a function of the annotation'.",
        "design_ref": "DESIGN.md section 5 C09",
        "replay": [PY, "native/replay_c09.py"],
        "standins": {"quick": {"bounded: real magic_tunable + real ntcore: keys, type strings, per-instance values, writeDefault vs existing values, interleaved python/NT writes; @feedback keys and types": [PY, "native/replay_c09.py"]}},
    },
    "C12": {
        "modules": ["smdef"],
        "level": "proof",
        "level_text": "_State.__init__ (signature validation loop, accepted <=> legal signature and no name collision), _State.__set_name__, _State.__call__ (always IllegalCallError), _StateData.__init__, "
                      "_get_class_members (most derived definition wins, base-most class's members first) and _build_states (instantiable <=> exactly one first and at most one default state; "
                      "state_names/state_descriptions list exactly the states in member order) are verified for every signature and member table.",
        "level_note": "Reflection (inspect.signature, hasattr(StateMachine, .), __mro__/__dict__, eval, __set_name__ being called at class creation) and dict.update are assumed externals; "
                      "_State.__set_name__ is verified (alias -> InvalidStateName, foreign owner -> TypeError, '<name>_duration' tunable created once) with issubclass uninterpreted.",
        "design_ref": "DESIGN.md section 5 C12",
        "replay": [PY, "native/replay_c12.py"],
        "standins": {"quick": {"bounded: small-scope class definitions through the real decorators/_build_states (forbidden names, signatures, aliasing, inheritance shapes)": [PY, "native/replay_c12.py"]}},
    },
    "C17": {
        "modules": ["sharp"],
        "level": "proof",
        "level_text": "The six getDistance/setDistance methods are verified against real-arithmetic contracts with the statement's constants (range clamp, power law, inverse voltage), "
                      "monotonicity and the set/read inverse are lemmas over the spec given the algebraic laws of pow; the Python clamp is proved bounded/finite/monotone for all non-NaN IEEE doubles (z3 FP).",
        "level_note": "libm pow laws are assumed (axioms), floats are reals except in the FP clamp lemmas, the wpilib sim round trip is assumed; the exhaustive 4096-code native sweep is a bounded stand-in.",
        "design_ref": "DESIGN.md section 5 C17",
        "replay": [PY, "native/replay_c17.py"],
        "standins": {"quick": {"bounded: real drivers on all 4096 ADC codes + special doubles; sim helpers through the real AnalogInputSim": [PY, "native/replay_c17.py"]}},
    },
    "C18": {
        "modules": ["units"],
        "level": "proof",
        "level_text": "units.convert is verified against the recursive spec from_root(target, to_root(source, v)) for chains of any depth (three loop invariants); identity, round trip, path independence and "
                      "additivity are lemmas over the spec by induction on the depth; the four built-in units' lambdas are read from the source and proved mutually inverse/linear with the "
                      "statement's constants (100, 0.3048, 12); the sonar drivers and the pressure sensor have straight-line postconditions with the statement's constants, plus the calibration lemma.",
        "level_note": "Floats are reals; termination/acyclicity assumed; user-defined units are assumed mutually inverse (checked for the built-ins); wpilib readings are arbitrary reals.",
        "design_ref": "DESIGN.md section 5 C18",
        "replay": [PY, "native/replay_c18.py"],
        "standins": {"quick": {"bounded: real convert / sonar / pressure on a value grid with user-defined unit chains, relative tolerance 1e-9": [PY, "native/replay_c18.py"]}},
    },
    "C08": {
        "modules": ["inject"],
        "level": "proof",
        "level_text": "get_injection_requests and find_injections are verified against complete functional contracts over ordered maps (loop invariants over the key sequence): exactly the public, "
                      "not-yet-set annotated names are requested; each is filled with the very object under the same name, else under '<component>_<name>' (identity, falsy values included), "
                      "of the annotated type; otherwise MagicInjectError/TypeError.",
        "level_note": "Objects/types are uninterpreted references, isinstance/hasattr uninterpreted predicates (reflection). The MagicRobot side (_collect_injectables, _create_component(s), "
                      "_setup_vars) is verified in contracts/robotinit.py on top of assumed reflection contracts (what typing.get_type_hints / dir(self) / getattr return, ctyp(**kwargs) returns a new object); "
                      "those assumptions are exercised by the bounded native stand-in.",
        "design_ref": "DESIGN.md section 5 C08",
        "replay": [PY, "native/replay_c08.py"],
        "standins": {"quick": {"bounded: generated robot definitions through the real MagicRobot._create_components (injection targets, identity, errors, setup order, component order)": [PY, "native/replay_c08.py"]}},
    },
    "C15": {
        "modules": ["stateful"],
        "level": "proof",
        "level_text": "Site assertions E1-E7 at the state-function call site of StatefulAutonomous.on_iteration (run until tm exceeds start+duration, hand over at the "
                      "expiry instant, initial_call, state_tm >= 0), contracts of next_state/done/on_enable (fresh first state and dashboard-read durations in every period), "
                      "__register_sd_var_internal (the '<MODE_NAME>\\<name>' dashboard key and the (attribute, key, typed getter, default) registration that on_enable reads), "
                      "for arbitrary state graphs, tm sequences and in-state next_state/done actions (callback havoc under the invariant).",
        "level_note": "Assumed: class/instance getattr/setattr (reflection) and ntcore getters as externals; tm non-decreasing within a period and < 2**32-1; durations >= 0; "
                      "well-formed state graph; one instance at a time (state records are shared class-level objects).",
        "design_ref": "DESIGN.md section 5 C15",
        "replay": [PY, "native/replay_c15.py"],
        "standins": {"quick": {"bounded: real StatefulAutonomous on random modes, dashboard-edited durations, several periods vs a reference simulator": [PY, "native/replay_c15.py"]}},
    },
    "C19": {
        "modules": ["ext_hal", "ext_time", "control"],
        "level": "proof",
        "level_text": "Every method of Toggle, Toggle._SteadyDebounce, ButtonDebouncer, PeriodicFilter and SimpleWatchdog (constructors included) "
                      "is verified against contracts whose postconditions are the clauses of the property, with object invariants and ghost "
                      "'time of last accepted event' fields carrying the once-per-period claims over arbitrary sample histories.",
        "level_note": "Assumed: clocks are monotone reals (floats as reals), button reads are arbitrary Booleans, debounce/filter periods are >= 0, "
                      "the stored joystickget callable is the bound _SteadyDebounce.get created in Toggle.__init__ (link verified there), "
                      "logger.warning in simple_watchdog.py is the overrun warning event.",
        "design_ref": "DESIGN.md section 5 C19",
        "replay": [PY, "native/replay_c19.py"],
        "standins": {"quick": {"bounded: real Toggle/ButtonDebouncer/PeriodicFilter/SimpleWatchdog on random scripted histories vs statement-level oracles": [PY, "native/replay_c19.py"]}},
    },
    "C16": {
        "modules": ["ext_hal", "precise_delay"],
        "level": "proof",
        "level_text": "Every method of NotifierDelay is verified against contracts that state the t0+k*P grid with ghost fields (t0, k): "
                      "object invariant 'expiry == t0+(k+1)P == HAL alarm' is proved inductive over __init__/wait/free/__exit__, and the "
                      "property clauses are postconditions of wait()/free() for every period >= 1 ms and every entry clock value.",
        "level_note": "Assumed (external) HAL contracts: waitForNotifierAlarm returns at max(now, alarm); updateNotifierAlarm stores the alarm; "
                      "handles are live until cleanNotifier. Integer microseconds are exact; int(period*1e6) is taken over the reals.",
        "design_ref": "DESIGN.md section 5 C16",
        "replay": [PY, "native/replay_c16.py"],
        "standins": {"quick": {"bounded: real NotifierDelay on a fake HAL implementing the assumed contract, body-duration patterns": [PY, "native/replay_c16.py"]}},
    },
    "C20": {
        "modules": ["crc7"],
        "level": "proof",
        "level_text": "Unbounded proof that the real crc7() body computes the recursive bit-serial CRC-7 spec for every byte sequence "
                      "(loop invariant + table lemma over the list literal in the source), plus complete bit-vector lemmas for linearity "
                      "and the single-bit / double-bit(<127) / burst(<=7) detection corollaries.",
        "level_note": "Assumes message elements are ints in [0,256); python ints mathematical (modelled as 32-bit vectors with "
                      "no-overflow obligations); the induction schema over message length that combines the per-byte lemmas; the pyvc VC generator.",
        "design_ref": "DESIGN.md section 5 C20",
        "replay": [PY, "native/replay_crc7.py"],
        "standins": {"quick": {"bounded: real crc7 vs native bit-serial reference on all 1-byte, 2704 2-byte and 20000 random messages (<40 bytes) + in-place mutated buffer": [PY, "native/replay_crc7.py"]}},
        "explanation": "crc7() is verified against the recursive bit-serial spec crc_spec by a loop invariant (unbounded in the "
                       "message length); the table read from the source is proved equal to step8 on all 256 entries; linearity and "
                       "the error-detection corollaries are finite bit-vector lemmas over step8 plus the stated induction schema.",
    },
}

_SM_NOTE = ("Assumed: the state table is well formed (postcondition of _build_states); user state functions touch framework state only "
            "through the public API and respect usage assumptions CB-K1/CB-A1 (= known findings F3/F4, carved out); overriding done() calls "
            "super().done(); clocks monotone, 0 <= t < 2**32-1 s; durations >= 0; floats as reals; the getattr/tunable read of a duration is an "
            "assumed external; eval-generated argument adapter: see C03 template obligation.")
for _pid, _txt in {
    "C01": "Site assertions A1/S1 at the only state-function call site of execute(), postconditions X0/X1 of execute() and 'only engage() raises the request flag' on every method, "
           "proved for an arbitrary well-formed machine from any state satisfying the object invariant (proved inductive over all public methods and callbacks, both receivers).",
    "C02": "Site assertions B2-B5, T4 at the state-function call site: the current state runs until tm exceeds start+duration, hands over at the expiry instant "
           "(successor start_time == predecessor expiry; cycle-back moves the clock origin by exactly the expiry), for arbitrary clocks and duration values.",
    "C03": "Site assertions A4-A8 (tm, state_tm, initial_call values and their monotonicity between consecutive calls) at the call site, plus a structural/template "
           "obligation on the generated argument adapter in _State.__init__.",
    "C04": "Postconditions of done()/on_disable()/engage()/execute() (stopped <=> state None, is_executing False, current_state ''), site assertions A2/A3/A5 and the invariants I_cs/I_en.",
    "C13": "Contracts of AutonomousStateMachine.on_enable/on_iteration/done and of every inherited method re-verified for the AutonomousStateMachine receiver: the latch invariant AI1, "
           "L1 (latched off => nothing runs or changes), N1 (never cycles), X5.",
}.items():
    REGISTRY[_pid] = {"modules": ["sm"], "module_groups": [["sm"], ["smdef"]] if _pid == "C03" else None, "level": "proof", "level_text": _txt, "level_note": _SM_NOTE, "design_ref": f"DESIGN.md section 5 {_pid}",
                      "replay": [PY, "native/replay_sm.py"],
                      "standins": {"quick": {"bounded: real StateMachine/AutonomousStateMachine on random machine shapes, histories and action scripts vs a reference simulator and statement-level monitors": [PY, "native/replay_sm.py"]}}}
REGISTRY["C03"]["standins"]["quick"]["bounded: all 16 ordered parameter subsets x 4 decorators through the real adapter (each parameter receives its own value)"] = [PY, "native/replay_c12.py"]

_ROBOT_MODS = ["ext_hal", "ext_time", "ext_ds", "control", "precise_delay", "selector", "robot"]
_ROBOT_NOTE = ("Assumed: wpilib/hal/ntcore externals (DriverStation flags arbitrary, isFMSAttached stable within an iteration, NT setters do not raise); the component/feedback/"
               "periodic/reset lists are well formed (distinct existing objects); user callbacks touch framework-private state only through the public API; "
               "dict.update semantics of component.__dict__.update; NotifierDelay per C16; SimpleWatchdog per C19.")
for _pid, _txt in {
    "C05": "Event-order postconditions (ghost serial numbers and per-object counters) of _enabled_periodic and _do_periodics proved with quantified loop invariants for any number of components, "
           "feedbacks and periodics and any set of raising callbacks; mode loops: see level_note.",
    "C06": "on_enable/on_disable hooks of every component are called exactly once, in declaration order (loop invariants, also under raising hooks on the FMS); "
           "execute() carries the site assertion 'component is enabled' which _enabled_periodic requires from its callers.",
    "C07": "Every function that invokes user callbacks has the exceptional postcondition 'an exception leaves only if the FMS is not attached' (G1) and the normal postcondition "
           "'without the FMS a normal return means no callback raised' (G2), on top of the unchanged event-count/order postconditions; onException is verified against raise-iff-not-FMS.",
    "C10": "Postcondition of _enabled_periodic: after the components, feedbacks and periodics (whatever raised, FMS attached) every will_reset_to key of every registered component "
           "holds its default again, and the reset loop touches no other attribute (loop post-obligation relative to the loop entry state).",
    "C11": "Postcondition of _do_periodics: each @feedback getter called exactly once per call, its setter called with exactly the value returned in that call, not called when the getter raised, "
           "others unaffected; reached from every mode loop.",
}.items():
    REGISTRY[_pid] = {"modules": _ROBOT_MODS, "verify_modules": ["robot", "selector"], "level": "proof", "level_text": _txt, "level_note": _ROBOT_NOTE,
                      "design_ref": f"DESIGN.md section 5 {_pid}"}
REGISTRY["C05"]["verify_modules"] = ["robot", "selector", "precise_delay"]      # 'one iteration per control_loop_wait_time' rests on NotifierDelay (anchored file of C05)
for _pid in ("C05", "C06"):
    REGISTRY[_pid]["standins"] = {"quick": {"bounded: generated robot definitions through the real _create_components: declaration order of components (base classes first), setup() once after all injection": [PY, "native/replay_c08.py"]}}
REGISTRY["C14"] = {"modules": _ROBOT_MODS, "verify_modules": ["selector", "robot"], "level": "proof",
                   "level_text": "Lifecycle half: contracts of run/start/periodic/disable/_on_autonomous_enable/_on_iteration with a typestate ghost per mode: the chosen mode (dashboard string if it names a mode, else the chooser) "
                                 "gets on_enable once, one on_iteration(t) per loop iteration with non-decreasing t, on_disable once; no other mode is touched. "
                                 "Discovery half: AutonomousModeSelector.__init__ verified statement by statement (contracts/seldisc.py): module files listed once (D0), only classes with MODE_NAME and not DISABLED instantiated, "
                                 "exactly once per visit (D1/D2), created instances offered and healthy modes never lost (D3), duplicates / failing imports / failing constructors / several defaults raise exactly when no FMS is attached (D4/F1/F2), "
                                 "chooser options and DEFAULT preselection (O1/O2).",
                   "level_note": _ROBOT_NOTE + " Discovery: importlib / glob / os.path / inspect.getmembers / set() / sorted() / SendableChooser are assumed contracts (interpreter, OS and wpilib semantics); they are exercised for real by the bounded native stand-in.",
                   "design_ref": "DESIGN.md section 5 C14",
                   "replay": [PY, "native/replay_c14.py"],
                   "standins": {"quick": {"bounded: generated packages on disk, real imports - discovery, duplicates, defaults, failing imports/constructors, FMS on/off, start/periodic/disable lifecycle": [PY, "native/replay_c14.py"]}}}
REGISTRY["C14"]["module_groups"] = [_ROBOT_MODS, ["seldisc"]]
REGISTRY["C11"]["module_groups"] = [_ROBOT_MODS, ["tunable"]]
REGISTRY["C11"]["standins"] = {"quick": {"bounded: real collect_feedbacks + real ntcore: keys (explicit / get_ prefix removed), topic types from return hints, published values": [PY, "native/replay_c09.py"]}}
REGISTRY["C10"]["module_groups"] = [_ROBOT_MODS, ["reset"]]
for _pid in ("C05", "C06", "C07", "C10", "C11"):
    REGISTRY[_pid].setdefault("standins", {"quick": {}})["quick"]["bounded: real _create_components/_on_mode_*_components/_enabled_periodic/_do_periodics on random layouts, raising sets, FMS on/off (orders, resets, feedback values, exception policy)"] = [PY, "native/replay_robot.py"]
    REGISTRY[_pid]["replay"] = [PY, "native/replay_robot.py"]
for _pid in ("C05", "C06"):
    REGISTRY[_pid]["standins"]["quick"]["bounded: real startCompetition in a worker thread under the simulated driver station: random sequence of 30 mode changes incl. direct enabled-to-enabled switches (dispatch loop, lifecycle bracket, per-iteration order, /robot/mode)"] = [PY, "native/replay_modes.py"]
# _create_components / _setup_vars / _setup_reset_vars (contracts/robotinit.py) in their own sidecar group
for _pid in ("C05", "C06"):
    REGISTRY[_pid]["module_groups"] = [_ROBOT_MODS, ["inject", "robotinit"]]
REGISTRY["C08"]["module_groups"] = [["inject", "robotinit"]]
REGISTRY["C10"]["module_groups"] = [_ROBOT_MODS, ["reset"], ["inject", "robotinit"]]
REGISTRY["C05"]["standins"]["quick"]["bounded: real NotifierDelay on a fake HAL implementing the assumed contract, body-duration patterns (one iteration per period)"] = [PY, "native/replay_c16.py"]
# --- every property also runs the sidecar groups that verify the other functions of its anchored files it depends on
# (tools/anchor_audit.py): the state-definition functions for the state-machine properties, the tunable module for the
# duration tunables of C02, robotInit's component wiring (which names the NetworkTables key families) for C09 / C11
for _pid in ("C01", "C02", "C04", "C13"):
    REGISTRY[_pid]["module_groups"] = [["sm"], ["smdef"]]
REGISTRY["C02"]["module_groups"] = [["sm"], ["smdef"], ["tunable"]]
REGISTRY["C09"]["module_groups"] = [["tunable"], ["inject", "robotinit"]]
REGISTRY["C11"]["module_groups"] = REGISTRY["C11"]["module_groups"] + [["inject", "robotinit"]]
for _pid in ("C01", "C02", "C04", "C13"):
    REGISTRY[_pid]["standins"]["quick"]["bounded: small-scope class definitions through the real decorators/_build_states (which definition of an inherited, redefined state wins; first/default flags)"] = [PY, "native/replay_c12.py"]

"""Registry: property id -> sidecar modules, native replay harness, bounded stand-ins."""
PY = "/venv/bin/python"

REGISTRY = {
    "C19": {
        "modules": ["ext_hal", "ext_time", "control"],
        "level": "proof",
        "level_text": "Every method of Toggle, Toggle._SteadyDebounce, ButtonDebouncer, PeriodicFilter and SimpleWatchdog (constructors included) "
                      "is verified against contracts whose postconditions are the clauses of the property, with object invariants and ghost "
                      "'time of last accepted event' fields carrying the once-per-period claims over arbitrary sample histories.",
        "level_note": "Assumed: clocks are monotone reals (floats as reals), button reads are arbitrary Booleans, debounce/filter periods are >= 0, "
                      "the stored joystickget callable is the bound _SteadyDebounce.get created in Toggle.__init__ (link verified there), "
                      "logger.warning in simple_watchdog.py is the overrun warning event.",
        "design_ref": "DESIGN.md section 5 C19",
        "replay": [PY, "native/replay_c19.py"],
        "standins": {"quick": {"bounded: real Toggle/ButtonDebouncer/PeriodicFilter/SimpleWatchdog on random scripted histories vs statement-level oracles": [PY, "native/replay_c19.py"]}},
    },
    "C16": {
        "modules": ["ext_hal", "precise_delay"],
        "level": "proof",
        "level_text": "Every method of NotifierDelay is verified against contracts that state the t0+k*P grid with ghost fields (t0, k): "
                      "object invariant 'expiry == t0+(k+1)P == HAL alarm' is proved inductive over __init__/wait/free/__exit__, and the "
                      "property clauses are postconditions of wait()/free() for every period >= 1 ms and every entry clock value.",
        "level_note": "Assumed (external) HAL contracts: waitForNotifierAlarm returns at max(now, alarm); updateNotifierAlarm stores the alarm; "
                      "handles are live until cleanNotifier. Integer microseconds are exact; int(period*1e6) is taken over the reals.",
        "design_ref": "DESIGN.md section 5 C16",
        "replay": [PY, "native/replay_c16.py"],
        "standins": {"quick": {"bounded: real NotifierDelay on a fake HAL implementing the assumed contract, body-duration patterns": [PY, "native/replay_c16.py"]}},
    },
    "C20": {
        "modules": ["crc7"],
        "level": "proof",
        "level_text": "Unbounded proof that the real crc7() body computes the recursive bit-serial CRC-7 spec for every byte sequence "
                      "(loop invariant + table lemma over the list literal in the source), plus complete bit-vector lemmas for linearity "
                      "and the single-bit / double-bit(<127) / burst(<=7) detection corollaries.",
        "level_note": "Assumes message elements are ints in [0,256); python ints mathematical (modelled as 32-bit vectors with "
                      "no-overflow obligations); the induction schema over message length that combines the per-byte lemmas; the pyvc VC generator.",
        "design_ref": "DESIGN.md section 5 C20",
        "replay": [PY, "native/replay_crc7.py"],
        "standins": {"quick": {"bounded: real crc7 vs native bit-serial reference on all 1-byte, 2704 2-byte and 20000 random messages (<40 bytes) + in-place mutated buffer": [PY, "native/replay_crc7.py"]}},
        "explanation": "crc7() is verified against the recursive bit-serial spec crc_spec by a loop invariant (unbounded in the "
                       "message length); the table read from the source is proved equal to step8 on all 256 entries; linearity and "
                       "the error-detection corollaries are finite bit-vector lemmas over step8 plus the stated induction schema.",
    },
}

"""Registry: property id -> sidecar modules, native replay harness, bounded stand-ins."""
PY = "/venv/bin/python"

REGISTRY = {
    "C20": {
        "modules": ["crc7"],
        "level": "proof",
        "replay": [PY, "native/replay_crc7.py"],
        "standins": {"quick": {"bounded: real crc7 vs native bit-serial reference on all 1-byte, 2704 2-byte and 20000 random messages (<40 bytes) + in-place mutated buffer": [PY, "native/replay_crc7.py"]}},
        "explanation": "crc7() is verified against the recursive bit-serial spec crc_spec by a loop invariant (unbounded in the "
                       "message length); the table read from the source is proved equal to step8 on all 256 entries; linearity and "
                       "the error-detection corollaries are finite bit-vector lemmas over step8 plus the stated induction schema.",
    },
}

"""C20 - crc7(): contracts, spec function and lemmas.

Spec: the bit-serial CRC with reflected polynomial 0x91, zero initial value:
    crc = 0; for byte in data: crc ^= byte; repeat 8: crc = (crc ^ 0x91 if crc & 1 else crc) >> 1
`step8` is the effect of one byte on the register, `crc_spec(data, n)` the register after n bytes.
"""
import z3
from pyvc.sorts import BVW, V, BV, vbv

FILE = "robotpy_ext/misc/crc7.py"
PROPS = ["C20"]

_bv = lambda n: z3.BitVecVal(n, BVW)


def g(x):
    """one bit step of the reflected LFSR"""
    return z3.LShR(z3.If(x & 1 == 1, x ^ _bv(0x91), x), 1)


def step8_z(x):
    for _ in range(8):
        x = g(x)
    return x


_A = z3.ArraySort(z3.IntSort(), z3.BitVecSort(BVW))
crc_spec_f = z3.Function("crc_spec", _A, z3.IntSort(), z3.BitVecSort(BVW))
_a = z3.Const("a", _A)
_i = z3.Int("i")

# definitional axioms of the recursive spec function (conservative: primitive recursion on i)
AXIOMS = [
    ("crc_spec(a,0) = 0 [definition]", z3.ForAll([_a], crc_spec_f(_a, 0) == _bv(0))),
    ("crc_spec(a,i+1) = step8(crc_spec(a,i) ^ a[i]) [definition]",
     z3.ForAll([_a, _i], z3.Implies(_i >= 0, crc_spec_f(_a, _i + 1) == step8_z(crc_spec_f(_a, _i) ^ z3.Select(_a, _i))),
               patterns=[crc_spec_f(_a, _i + 1)])),
]


def _crc_spec(data, n):
    # data: Seq[BV] value (len, array) ; n: Int value
    return vbv(crc_spec_f(data.comps[1], n.z))


def _step8(x):
    return vbv(step8_z(x.z))


SPEC_FUNCS = {"crc_spec": _crc_spec, "step8": _step8}

CONTRACTS = {
    "crc7": {
        "kind": "repo",
        "params": {"data": "Seq[BV]"},
        "returns": "BV",
        "requires": {"bytes": "forall(k, Int, implies(0 <= k and k < len(data), data[k] < 256))",
                     "len>=0": "len(data) >= 0"},
        "ensures": {"C20.P1 result equals the bit-serial CRC-7 (poly 0x91 reflected, init 0) of the whole message":
                    "result == crc_spec(data, len(data))",
                    "C20.P2 result is a 7-bit value": "result < 128"},
        "raises": False,
        "loops": {0: {"inv": {"C20.I1 csum is the CRC of the prefix": "csum == crc_spec(data, __i)",
                               "C20.I2 csum stays below 128": "csum < 128"},
                       "local_sorts": {"csum": "BV"}}},
    },
}

# ---- lemmas over the spec (and the table read from the source) ------------------------------------
from pyvc.engine import Source
import ast as _ast


def _table():
    src = Source(FILE)
    val = src.module_assign("_crc7_table")
    return [e.value for e in val.elts] if isinstance(val, (_ast.List, _ast.Tuple)) and all(
        isinstance(e, _ast.Constant) for e in val.elts) else None


def _lemmas():
    x, y, p, q, k = z3.BitVecs("x y p q k", BVW)
    byte = lambda v: z3.ULT(v, _bv(256))
    L = []
    tab = _table()
    if tab is not None and len(tab) == 256:
        from pyvc.sorts import VConstSeq
        L.append(("C20.T table entry b equals step8(b) for all 256 b (table read from the source)",
                  [byte(x)], VConstSeq(tab).lookup_bv(x) == step8_z(x), lambda m: {"b": m.eval(x, True).as_long()}))
    else:
        L.append(("C20.T table is a 256-entry literal", [], z3.BoolVal(False)))
    L.append(("C20.L1 step8 is linear over XOR on bytes", [byte(x), byte(y)], step8_z(x ^ y) == step8_z(x) ^ step8_z(y)))
    L.append(("C20.L2 linearity of crc_spec, induction step: X=crc(a,i), Y=crc(b,i), bytes p,q",
              [z3.ULT(x, _bv(128)), z3.ULT(y, _bv(128)), byte(p), byte(q)],
              step8_z((x ^ y) ^ (p ^ q)) == step8_z(x ^ p) ^ step8_z(y ^ q)))
    L.append(("C20.L3 step8 maps bytes to 7-bit values", [byte(x)], z3.ULT(step8_z(x), _bv(128))))
    L.append(("C20.L4 step8 has trivial kernel on 7-bit values (trailing bytes keep a non-zero register non-zero)",
              [z3.ULT(x, _bv(128)), x != 0], step8_z(x) != 0))
    L.append(("C20.E1 single-bit error: step8(1<<k) != 0 for k<8", [z3.ULT(k, _bv(8))], step8_z(_bv(1) << k) != 0))
    # burst of up to 7 bits: odd 7-bit pattern p shifted by k<8 over two bytes
    e16 = p << k
    L.append(("C20.E3 burst of up to 7 bits (pattern p odd <128, any alignment k<8, spanning <=2 bytes) gives non-zero CRC",
              [z3.ULT(p, _bv(128)), p & 1 == 1, z3.ULT(k, _bv(8))],
              step8_z(step8_z(e16 & 0xFF) ^ z3.LShR(e16, 8)) != 0))
    # two bits, byte distance n = 0..16, bit offsets p,q, total distance 8n+q-p in [1,126]
    for n in range(0, 17):
        if n == 0:
            L.append(("C20.E2.0 two bits in the same byte", [z3.ULT(p, q), z3.ULT(q, _bv(8))],
                      step8_z((_bv(1) << p) ^ (_bv(1) << q)) != 0))
        else:
            s = step8_z(_bv(1) << p)
            for _ in range(n - 1):
                s = step8_z(s)
            dist = _bv(8 * n) + q - p
            L.append((f"C20.E2.{n} two bits {n} bytes apart, bit distance 8*{n}+q-p in [1,126]",
                      [z3.ULT(p, _bv(8)), z3.ULT(q, _bv(8)), z3.ULE(dist, _bv(126)), z3.UGE(dist, _bv(1))],
                      step8_z(s ^ (_bv(1) << q)) != 0))
    return L


LEMMAS = _lemmas()

ASSUMPTIONS = [
    "bytes elements are ints in [0,256) (requires of crc7)",
    "induction schema over the message length (linearity base case 0^0=0 is trivial; step is C20.L2; "
    "error-detection corollaries combine C20.L1-L4 with E1-E3 by induction on leading/trailing zero bytes of the error pattern)",
]

"""C09 - magicbot/magic_tunable.py: setup_tunables, tunable.__get__/__set__ (+ the key half of C11: collect_feedbacks).

The repository side is: which NetworkTables key a tunable / feedback is bound to, set vs setDefault at setup, a fresh
per-instance table keyed by the descriptor, and reads/writes going through that table.  What the entry then does
(latest value from either side, type strings, setDefault preserving an existing value) is ntcore's behaviour: assumed
contracts, exercised natively by the bounded stand-in."""
import ast
import z3
from pyvc.sorts import Ref, vref, vbool

FILE = "magicbot/magic_tunable.py"
PROPS = ["C09", "C11"]

_cattr = z3.Function("class_attribute", z3.StringSort(), Ref)
_member = z3.Function("bound_method", Ref, z3.StringSort(), Ref)
SPEC_FUNCS = {"cattr": lambda n: vref(_cattr(n.z), "tunable")}
GLOBALS = {"g_dir": "Seq[Str]", "g_members": "Seq[(Str,Ref:Method)]", "g_topic_types": "Map[Ref:TypeObj,Ref:TopicType]", "g_array_topic_types": "Map[Ref:TypeObj,Ref:TopicType]",
           "g_args": "Seq[Ref:TypeObj]"}
MACROS = {
    # the documented key of attribute n of an object set up under (prefix, cname)
    "base(prefix, cname)": "('/' + cname) if prefix is None else ('/' + unwrap(prefix) + '/' + cname)",
    "tkey(prefix, cname, t, n)": "(base(prefix, cname) + '/' + unwrap(t._ntsubtable) + '/' + n) if truthy(t._ntsubtable) else (base(prefix, cname) + '/' + n)",
    "is_tun(n)": "not startswith(n, '_') and isinstance(cattr(n), TUNABLE_CLASS())",
    "fkey(name, m)": "unwrap(m._magic_feedback_key) if m._magic_feedback_key is not None else (name[4:] if startswith(name, 'get_') else name)",
    "is_fb(m)": "has_attr(m, '_magic_feedback') and truthy(m._magic_feedback)",
}
CLASSES = {
    "PyObj": {"fields": {}}, "NTInst": {"fields": {}}, "TypeObj": {"fields": {"__name__": "Str", "?WPIStruct": "Bool", "WPIStruct": "py", "?__origin__": "Bool", "__origin__": "Ref:TypeObj"}},
    "Topic": {"fields": {"key": "Str"}},
    "TopicType": {"fields": {"g_kind": "Int", "g_of": "Ref:TypeObj"}},      # g_kind: 0 a table entry (ntcore topic class), 1 StructTopic of g_of, 2 StructArrayTopic of g_of
    "TypedTopic": {"fields": {"key": "Str", "ttype": "Ref:TopicType"}},
    "NTEntry": {"fields": {"key": "Str", "ttype": "Ref:TopicType", "g_value": "Ref:PyObj", "g_exists": "Bool", "g_sets": "Int", "g_setdefaults": "Int", "g_type_string": "Str"}},
    "tunable": {"fields": {"_ntdefault": "Ref:PyObj", "_ntsubtable": "Opt[Str]", "_ntwritedefault": "Bool", "?_topic_type": "Bool", "_topic_type": "Ref:TopicType",
                           "?__orig_class__": "Bool", "__orig_class__": "Ref:TypeObj"}},
    "TunOwner": {"fields": {"_tunables": "Map[Ref:tunable,Ref:NTEntry]"}},
    "Method": {"fields": {"?_magic_feedback": "Bool", "_magic_feedback": "Bool", "_magic_feedback_key": "Opt[Str]", "__name__": "Str"}},
    "Signature": {"fields": {"parameters": "Seq[Str]"}},
    "NTTable": {"fields": {"path": "Str"}},
    "Publisher": {"fields": {"key": "Str", "ttype": "Ref:TopicType", "g_type_string": "Str"}},
    "RawT": {"fields": {"key": "Str"}}, "_RawTopic": {"fields": {"_topic": "Ref:RawT"}},
    "FbSetterW": {"fields": {"target": "Ref:PyObj", "kind": "Int"},
                  "callable_of": {"methods": {"NTEntry.setValue": 0, "Publisher.set": 1}, "link": "target", "tag": "kind"}},
}
import pyvc.engine as _eng
TUNABLE_CLS = z3.Const("class.tunable", Ref)
SPEC_FUNCS["TUNABLE_CLASS"] = lambda: vref(TUNABLE_CLS, "TypeObj")
_nparams = z3.Function("number_of_parameters", Ref, z3.IntSort())
SPEC_FUNCS["nparams"] = lambda f: __import__("pyvc.sorts", fromlist=["vint"]).vint(_nparams(f.z))
SPEC_FUNCS["callable_obj"] = lambda f: vbool(z3.And(f.z != _eng.null, _eng.CALLABLE(f.z)))
# ---- type-hint plumbing (tunable.__init__ / __set_name__ / _get_topic_type_for_value): python type objects are TypeObj references;
# what typing / the topic tables make of them are uninterpreted functions, pinned down by the assumed contracts of the typing externals
TYPE_OF = True
_topic_of_hint = z3.Function("topic_type_of_annotation", Ref, Ref)
_first_arg = z3.Function("typing_first_arg", Ref, Ref)
_origin_of = z3.Function("typing_origin", Ref, Ref)
_seq_hint = z3.Function("sequence_hint_of_first_element", Ref, Ref)
_hint_of = z3.Function("annotation_of_attribute", Ref, z3.StringSort(), Ref)
SPEC_FUNCS.update({
    "topic_of_hint": lambda h: vref(_topic_of_hint(h.z), "TopicType"), "first_arg": lambda h: vref(_first_arg(h.z), "TypeObj"),
    "origin_of": lambda h: vref(_origin_of(h.z), "TypeObj"), "seq_hint_of": lambda v: vref(_seq_hint(v.z), "TypeObj"),
    "hint_of": lambda o, n: vref(_hint_of(o.z, n.z), "TypeObj"), "type_of": lambda v: vref(_eng.TYPE_OF(v.z), "TypeObj"),
    "CLASSVAR": lambda: vref(z3.Const("class.typing.ClassVar", Ref), "TypeObj"), "SEQ_CLASS": lambda: vref(z3.Const("class.collections.abc.Sequence", Ref), "TypeObj"),
})
def _cls(n):
    return lambda: vref(z3.Const(f"class.{n}", Ref), "TypeObj")
def _topic(n):
    return lambda: vref(z3.Const(f"topic.{n}", Ref), "TopicType")
for _n in ("bool", "int", "float", "str", "bytes", "list"):
    SPEC_FUNCS["T_" + _n.upper()] = _cls("builtins." + _n)
SPEC_FUNCS["T_TUPLE"] = _cls("tuple"); SPEC_FUNCS["T_ELLIPSIS"] = _cls("Ellipsis")
for _n in ("Boolean", "Integer", "Double", "String", "Raw", "BooleanArray", "IntegerArray", "DoubleArray", "StringArray"):
    SPEC_FUNCS["TOPIC_" + _n] = _topic(_n)
MACROS.update({
    "seq_origin(a)": "has_attr(a, '__origin__') and (a.__origin__ is T_LIST() or a.__origin__ is T_TUPLE() or a.__origin__ is SEQ_CLASS())",
    "tuple_ok(a)": "implies(a.__origin__ is T_TUPLE(), (len(g_args) == 2 and g_args[1] is T_ELLIPSIS()) or forall(i, Int, implies(0 <= i and i < len(g_args), g_args[i] is g_args[0])))",
    "seq_like(a)": "seq_origin(a) and len(g_args) > 0 and tuple_ok(a)",
    # the topic type a default value stands for: its own type's, else (a non-empty sequence) that of 'Sequence[type of the first element]'
    "topic_of_value(v)": "topic_of_hint(type_of(v)) if topic_of_hint(type_of(v)) is not None else (topic_of_hint(seq_hint_of(v)) if isinstance(v, SEQ_CLASS()) else None)",
    "strip2(h)": "first_arg(h) if origin_of(h) is TUNABLE_CLASS() else h",
    "strip(h)": "strip2(first_arg(h)) if origin_of(h) is CLASSVAR() else strip2(h)",
    # the type hint that applies to a tunable: the parameter of tunable[T](...), else the owner's annotation with ClassVar[...] / tunable[...] removed
    "RH(t, owner, name)": "first_arg(t.__orig_class__) if (has_attr(t, '__orig_class__') and t.__orig_class__ is not None) else strip(hint_of(owner, name))",
    "deferred(v)": "isinstance(v, SEQ_CLASS()) and not truthy(v)",
})

CONTRACTS = {
    # ---------------------------------------------------------------- ntcore / reflection externals
    "ntcore.NetworkTableInstance.getDefault": {"kind": "external", "params": {}, "returns": "Ref:NTInst", "ensures": {"an instance": "result is not None"}, "note": "ntcore"},
    "NTInst.getTopic": {"kind": "external", "params": {"key": "Str"}, "returns": "Ref:Topic", "ensures": {"topic of that key": "result is not None and result.key == key"}, "note": "ntcore: getTopic(key)"},
    "NTInst.getTable": {"kind": "external", "params": {"path": "Str"}, "returns": "Ref:NTTable", "ensures": {"table": "result is not None and result.path == path"}, "note": "ntcore: getTable(path)"},
    "NTTable.getSubTable": {"kind": "external", "params": {"key": "Str"}, "returns": "Ref:NTTable", "ensures": {"sub-table <table>/<key>": "result is not None and result.path == self.path + '/' + key"}, "note": "ntcore"},
    "NTTable.getEntry": {"kind": "external", "params": {"key": "Str"}, "returns": "Ref:NTEntry", "ensures": {"entry under <table>/<key>": "result is not None and result.key == self.path + '/' + key"}, "note": "ntcore"},
    "NTTable.getTopic": {"kind": "external", "params": {"key": "Str"}, "returns": "Ref:Topic", "ensures": {"topic under <table>/<key>": "result is not None and result.key == self.path + '/' + key"}, "note": "ntcore"},
    "TopicType.__call__": {"kind": "external", "params": {"topic": "Ref:Topic"}, "returns": "Ref:TypedTopic",
                           "ensures": {"typed view of the same topic": "result is not None and result.key == topic.key and result.ttype is self"}, "note": "ntcore: BooleanTopic(topic) etc."},
    "TypedTopic.getEntry": {"kind": "external", "params": {"default": "Ref:PyObj"}, "returns": "Ref:NTEntry",
                            "ensures": {"entry of that topic and type; creating the entry object does not change the topic's value": "result is not None and result.key == self.key and result.ttype is self.ttype"}, "note": "ntcore"},
    "TypedTopic.publish": {"kind": "external", "params": {}, "returns": "Ref:Publisher", "ensures": {"publisher of that topic and type": "result is not None and result.key == self.key and result.ttype is self.ttype"}, "note": "ntcore"},
    "NTEntry.set": {"kind": "external", "params": {"value": "Ref:PyObj"}, "modifies": ["self.g_value", "self.g_exists", "self.g_sets"],
                    "ensures": {"the topic now holds the value": "self.g_value is value and self.g_exists and self.g_sets == old(self.g_sets) + 1"}, "note": "ntcore entry.set"},
    "NTEntry.setDefault": {"kind": "external", "params": {"value": "Ref:PyObj"}, "modifies": ["self.g_value", "self.g_exists", "self.g_setdefaults"],
                           "ensures": {"an existing value is preserved, otherwise the default is stored": "self.g_value is (old(self.g_value) if old(self.g_exists) else value) and self.g_exists and self.g_setdefaults == old(self.g_setdefaults) + 1"},
                           "note": "ntcore entry.setDefault"},
    "NTEntry.get": {"kind": "external", "params": {}, "returns": "Ref:PyObj", "ensures": {"the topic's current value (latest set from either side)": "result is self.g_value"}, "note": "ntcore entry.get"},
    "NTEntry.setValue": {"kind": "external", "params": {"value": "Ref:PyObj"}, "modifies": ["self.g_value"], "ensures": {}, "note": "ntcore"},
    "Publisher.set": {"kind": "external", "params": {"value": "Ref:PyObj"}, "modifies": [], "ensures": {}, "note": "ntcore"},
    "tun.dir": {"kind": "external", "params": {"cls": "py"}, "returns": "Seq[Str]", "pure_result": "g_dir", "ensures": {"names": "len(result) >= 0"}, "note": "dir(cls): attribute names of the class (reflection)"},
    "tun.getattr_cls": {"kind": "external", "params": {"cls": "py", "name": "Str"}, "returns": "Ref:tunable", "ensures": {"class attribute": "result is cattr(name)"},
                        "note": "getattr(cls, n): the class attribute (for a tunable: the descriptor itself, via tunable.__get__(None, cls))"},
    "inspect.getmembers": {"kind": "external", "params": {"obj": "py", "pred": "py"}, "returns": "Seq[(Str,Ref:Method)]", "pure_result": "g_members",
                           "ensures": {"bound methods, one object per member name": "forall(j, Int, implies(0 <= j and j < len(result), result[j][1] is not None)) and forall(j, Int, forall(k, Int, implies(0 <= j and j < k and k < len(result), not (result[j][1] is result[k][1]))))"}, "note": "inspect.getmembers(component, inspect.ismethod)"},
    "typing.get_type_hints": {"kind": "external", "params": {"m": "Ref:Method"}, "returns": "Map[Str,Ref:TypeObj]", "ensures": {}, "note": "typing.get_type_hints(method)"},
    "_get_topic_type": {"kind": "external", "cites": ['C09.Y1', 'C09.Y2', 'C09.Y3', 'C09.Y4'], "params": {"annotation": "Ref:TypeObj"}, "returns": "Ref:TopicType", "ensures": {"the topic class the tables give for this annotation (None if none)": "result is topic_of_hint(annotation)"}, "verify": False,
                        "note": "_get_topic_type: type-hint -> ntcore topic class table (structural check C09.T1 + bounded stand-in)"},
    "tt.seq_hint": {"kind": "external", "params": {"value": "Ref:PyObj"}, "returns": "Ref:TypeObj", "ensures": {"Sequence[type(value[0])]": "result is seq_hint_of(value)"},
                    "note": "the expression Sequence[type(value[0])] (subscripting a typing alias / the first element of an arbitrary sequence): abstracted as seq_hint_of(value)"},
    "tt.owner_hints": {"kind": "external", "params": {"owner": "Ref:TypeObj"}, "returns": "Map[Str,Ref:TypeObj]",
                       "ensures": {"the owner's annotations": "wf_map(result) and forall(k, Str, (result[k] is hint_of(owner, k)) if has(result, k) else (hint_of(owner, k) is None))"},
                       "note": "typing.get_type_hints(owner) (assumed not to raise: forward references resolvable)"},
    "typing.get_args": {"kind": "external", "params": {"tp": "Ref:TypeObj"}, "returns": "Seq[Ref:TypeObj]", "ensures": {"first parameter of the alias": "len(result) >= 1 and result[0] is first_arg(tp)"},
                        "note": "typing.get_args on a parameterised alias (tunable[T] / ClassVar[T]: exactly one parameter)"},
    "typing.get_origin": {"kind": "external", "params": {"tp": "Ref:TypeObj"}, "returns": "Ref:TypeObj", "ensures": {"origin": "result is origin_of(tp)"}, "note": "typing.get_origin"},
    "tt.struct_topic": {"kind": "external", "params": {"of": "Ref:TypeObj"}, "returns": "Ref:TopicType", "returns_fresh": True, "ensures": {"StructTopic constructor for that struct type": "result.g_kind == 1 and result.g_of is of"},
                        "note": "the expression `lambda topic: ntcore.StructTopic(topic, return_annotation)` (lambda bodies are not executed; the closure is abstracted by its captured type)"},
    "tt.struct_array_topic": {"kind": "external", "params": {"of": "Ref:TypeObj"}, "returns": "Ref:TopicType", "returns_fresh": True, "ensures": {"StructArrayTopic constructor for that struct type": "result.g_kind == 2 and result.g_of is of"},
                              "note": "the expression `lambda topic: ntcore.StructArrayTopic(topic, inner_type)`"},
    "tt.get_args": {"kind": "external", "params": {"tp": "Ref:TypeObj"}, "returns": "Seq[Ref:TypeObj]", "pure_result": "g_args", "ensures": {"the alias parameters": "len(result) >= 0"}, "note": "typing.get_args(annotation) (one call site: g_args)"},
    "tt.set_len": {"kind": "external", "params": {"xs": "Seq[Ref:TypeObj]"}, "returns": "Int",
                   "ensures": {"number of distinct elements": "result >= 0 and (result == 0) == (len(xs) == 0) and (result == 1) == (len(xs) > 0 and forall(i, Int, implies(0 <= i and i < len(xs), xs[i] is xs[0])))"},
                   "note": "the expression len(set(args)) (builtin semantics, assumed)"},
    # ---------------------------------------------------------------- repo functions
    # the bytes adapter added by fix D6: ntcore.RawTopic needs an explicit type string
    "tt.new_raw": {"kind": "external", "params": {"topic": "Ref:Topic"}, "returns": "Ref:RawT", "returns_fresh": True, "ensures": {"raw view of that topic": "result.key == topic.key"}, "note": "ntcore.RawTopic(topic)"},
    "RawT.getEntry": {"kind": "external", "params": {"type_string": "Str", "default": "Ref:PyObj"}, "returns": "Ref:NTEntry", "ensures": {"entry of that topic with that type string": "result is not None and result.key == self.key and result.g_type_string == type_string"}, "note": "ntcore.RawTopic.getEntry(typeString, default)"},
    "RawT.publish": {"kind": "external", "params": {"type_string": "Str"}, "returns": "Ref:Publisher", "ensures": {"publisher of that topic with that type string": "result is not None and result.key == self.key and result.g_type_string == type_string"}, "note": "ntcore.RawTopic.publish(typeString)"},
    "_RawTopic.__init__": {"receivers": ["_RawTopic"], "ctor": True, "params": {"topic": "Ref:Topic"}, "requires": {"a topic": "topic is not None"}, "modifies": ["self._topic"],
                           "ensures": {"C09.R0 the bytes adapter wraps the raw view of the same topic": "self._topic is not None and self._topic.key == topic.key"}},
    "_RawTopic.getEntry": {"receivers": ["_RawTopic"], "params": {"default": "Ref:PyObj"}, "returns": "Ref:NTEntry", "requires": {"constructed": "self._topic is not None"}, "modifies": [],
                           "ensures": {"C09.R1 a bytes tunable's entry is the topic's entry with the type string 'raw'": "result is not None and result.key == self._topic.key and result.g_type_string == 'raw'"}},
    "_RawTopic.publish": {"receivers": ["_RawTopic"], "params": {}, "returns": "Ref:Publisher", "requires": {"constructed": "self._topic is not None"}, "modifies": [],
                          "ensures": {"C09.R2 (also C11) a bytes feedback publishes on the topic with the type string 'raw'": "result is not None and result.key == self._topic.key and result.g_type_string == 'raw'"}},
    "inspect.signature": {"kind": "external", "params": {"f": "Ref:Method"}, "returns": "Ref:Signature", "ensures": {"signature object": "result is not None and len(result.parameters) == nparams(f)"},
                          "note": "inspect.signature(f); only the number of parameters is used"},
    "feedback": {
        "params": {"f": "Ref:Method", "key": "Opt[Str]"}, "returns": "py", "raises": ["TypeError", "ValueError"],
        "requires": {"decorating a function (the keyword-only form feedback(key=...) returns a functools.partial and is outside this contract)": "f is not None"},
        "modifies": ["f._magic_feedback", "f.?_magic_feedback", "f._magic_feedback_key"],
        "ensures": {"C11.D1 a decorated getter is marked for publication and remembers the explicit key (None: derive it from the name)":
                    "has_attr(f, '_magic_feedback') and f._magic_feedback and f._magic_feedback_key == key and callable_obj(f) and nparams(f) == 1"},
        "ensures_raise": {"C11.D2 rejected exactly when it is not callable (TypeError) or takes anything besides self (ValueError)": "(exc == 'TypeError' and not callable_obj(f)) or (exc == 'ValueError' and callable_obj(f) and nparams(f) != 1)",
                          "nothing marked": "has_attr(f, '_magic_feedback') == old(has_attr(f, '_magic_feedback'))"},
    },
    "_get_topic_type#tables": {
        "source": "_get_topic_type", "params": {"return_annotation": "Ref:TypeObj"}, "returns": "Ref:TopicType", "returns_fresh": False, "modifies": [],
        "requires": {"an annotation": "return_annotation is not None"},
        "assume_entry": {
            "C09.T1 (structural, checked on the source): _topic_types maps exactly bool/int/float/str/bytes to the Boolean/Integer/Double/String/Raw topic classes":
                "forall(k, Ref_TypeObj, has(g_topic_types, k) == (k is T_BOOL() or k is T_INT() or k is T_FLOAT() or k is T_STR() or k is T_BYTES())) and g_topic_types[T_BOOL()] is TOPIC_Boolean() and "
                "g_topic_types[T_INT()] is TOPIC_Integer() and g_topic_types[T_FLOAT()] is TOPIC_Double() and g_topic_types[T_STR()] is TOPIC_String() and g_topic_types[T_BYTES()] is TOPIC_Raw()",
            "C09.T1 (structural): _array_topic_types maps exactly bool/int/float/str to the array topic classes":
                "forall(k, Ref_TypeObj, has(g_array_topic_types, k) == (k is T_BOOL() or k is T_INT() or k is T_FLOAT() or k is T_STR())) and g_array_topic_types[T_BOOL()] is TOPIC_BooleanArray() and "
                "g_array_topic_types[T_INT()] is TOPIC_IntegerArray() and g_array_topic_types[T_FLOAT()] is TOPIC_DoubleArray() and g_array_topic_types[T_STR()] is TOPIC_StringArray()",
            "the nine ntcore topic classes and the builtin types are distinct existing objects":
                "TOPIC_Boolean() is not None and TOPIC_Integer() is not None and TOPIC_Double() is not None and TOPIC_String() is not None and TOPIC_Raw() is not None and TOPIC_BooleanArray() is not None and "
                "TOPIC_IntegerArray() is not None and TOPIC_DoubleArray() is not None and TOPIC_StringArray() is not None and T_LIST() is not None and T_TUPLE() is not None and SEQ_CLASS() is not None and T_ELLIPSIS() is not None and "
                "T_BOOL() is not None and T_INT() is not None and T_FLOAT() is not None and T_STR() is not None and T_BYTES() is not None and not (T_TUPLE() is T_LIST()) and not (T_TUPLE() is SEQ_CLASS()) and not (T_BOOL() is T_INT()) and not (T_BOOL() is T_FLOAT()) and not (T_BOOL() is T_STR()) and "
                "not (T_BOOL() is T_BYTES()) and not (T_INT() is T_FLOAT()) and not (T_INT() is T_STR()) and not (T_INT() is T_BYTES()) and not (T_FLOAT() is T_STR()) and not (T_FLOAT() is T_BYTES()) and not (T_STR() is T_BYTES())",
        },
        "ensures": {
            "C09.Y1 (also C11) bool / int / float / str / bytes give the Boolean / Integer / Double / String / Raw topic (checked before anything else: str and bytes are sequences too)":
                "implies(return_annotation is T_BOOL(), result is TOPIC_Boolean()) and implies(return_annotation is T_INT(), result is TOPIC_Integer()) and implies(return_annotation is T_FLOAT(), result is TOPIC_Double()) and "
                "implies(return_annotation is T_STR(), result is TOPIC_String()) and implies(return_annotation is T_BYTES(), result is TOPIC_Raw())",
            "C09.Y2 (also C11) a WPILib struct type gives a StructTopic of that type":
                "implies(not has(g_topic_types, return_annotation) and has_attr(return_annotation, 'WPIStruct'), result is not None and result.g_kind == 1 and result.g_of is return_annotation)",
            "C09.Y3 (also C11) list[T] / Sequence[T] / tuple[T, ...] / homogeneous tuple[T, T] give the array topic of a scalar T (bool/int/float/str) and a StructArrayTopic for a struct T":
                "implies(not has(g_topic_types, return_annotation) and not has_attr(return_annotation, 'WPIStruct') and seq_like(return_annotation), "
                "(implies(g_args[0] is T_BOOL(), result is TOPIC_BooleanArray()) and implies(g_args[0] is T_INT(), result is TOPIC_IntegerArray()) and implies(g_args[0] is T_FLOAT(), result is TOPIC_DoubleArray()) and "
                "implies(g_args[0] is T_STR(), result is TOPIC_StringArray()) and "
                "implies(not has(g_array_topic_types, g_args[0]) and has_attr(g_args[0], 'WPIStruct'), result is not None and result.g_kind == 2 and result.g_of is g_args[0]) and "
                "implies(not has(g_array_topic_types, g_args[0]) and not has_attr(g_args[0], 'WPIStruct'), result is None)))",
            "C09.Y4 (also C11) anything else (no table entry, no struct, not a sequence alias, a heterogeneous tuple) has no topic type":
                "implies(not has(g_topic_types, return_annotation) and not has_attr(return_annotation, 'WPIStruct') and not seq_like(return_annotation), result is None)",
        },
    },
    "_get_topic_type_for_value": {
        "params": {"value": "Ref:PyObj"}, "returns": "Ref:TopicType", "raises": "ValueError", "modifies": [],
        "requires": {"a value": "value is not None"},
        "ensures": {"C09.V1 the topic type of a default value: that of its own type (bool/int/float/str/bytes/struct come before the Sequence check), else that of Sequence[type of its first element]":
                    "result is topic_of_value(value) and not (topic_of_hint(type_of(value)) is None and deferred(value))"},
        "ensures_raise": {"C09.V2 ValueError exactly for an empty sequence whose own type has no topic": "topic_of_hint(type_of(value)) is None and deferred(value)"},
    },
    "tunable.__init__": {
        "receivers": ["tunable"], "ctor": True, "params": {"default": "Ref:PyObj", "writeDefault": "Bool", "subtable": "Opt[Str]", "doc": "Ref:PyObj"},
        "requires": {"a default": "default is not None"}, "raises": "TypeError",
        "modifies": ["self._ntdefault", "self._ntsubtable", "self._ntwritedefault", "self._topic_type", "self.?_topic_type"],
        "ensures": {"settings stored": "self._ntdefault is default and self._ntsubtable == subtable and self._ntwritedefault == writeDefault",
                    "C09.I1 a non-empty (or non-sequence) default fixes the topic type right away; an empty sequence defers it to the type hint":
                    "(not has_attr(self, '_topic_type')) if deferred(default) else (has_attr(self, '_topic_type') and self._topic_type is not None and self._topic_type is topic_of_value(default))"},
        "ensures_raise": {"C09.I2 TypeError exactly when the default has no NetworkTables type": "not deferred(default) and topic_of_value(default) is None"},
    },
    "tunable.__set_name__": {
        "receivers": ["tunable"], "params": {"owner": "Ref:TypeObj", "name": "Str"}, "raises": ["TypeError", "ValueError"],
        "requires": {"constructed": "self._ntdefault is not None"},
        "modifies": ["self._topic_type", "self.?_topic_type"],
        "ensures": {"C09.N1 the type hint (parameter of tunable[T](...), else the owner's annotation without ClassVar[...] / tunable[...]) decides the topic type when there is one; otherwise the default value does":
                    "has_attr(self, '_topic_type') and self._topic_type is not None and "
                    "self._topic_type is (topic_of_hint(RH(self, owner, name)) if RH(self, owner, name) is not None else topic_of_value(self._ntdefault))"},
        "ensures_raise": {"C09.N2 an error exactly when neither the hint nor the default gives a NetworkTables type (an empty sequence needs a hint)":
                          "(topic_of_hint(RH(self, owner, name)) is None) if RH(self, owner, name) is not None else (topic_of_value(self._ntdefault) is None or deferred(self._ntdefault))"},
    },
    "setup_tunables": {
        "params": {"component": "Ref:TunOwner", "cname": "Str", "prefix": "Opt[Str]"}, "defaults": {"prefix": "components"},
        "local_sorts": {"tunables": "Map[Ref:tunable,Ref:NTEntry]"},
        "requires": {"object given": "component is not None",
                     "tunable descriptors are existing objects with a topic type, one per attribute name":
                     "forall(n, Str, implies(isinstance(cattr(n), TUNABLE_CLASS()), cattr(n) is not None and has_attr(cattr(n), '_topic_type') and cattr(n)._topic_type is not None)) and "
                     "forall(a, Int, forall(b, Int, implies(0 <= a and a < b and b < len(g_dir), not (cattr(g_dir[a]) is cattr(g_dir[b])) or not is_tun(g_dir[a]))))"},
        "modifies": ["component._tunables", "NTEntry.g_value[*]", "NTEntry.g_exists[*]", "NTEntry.g_sets[*]", "NTEntry.g_setdefaults[*]"],
        "loops": {0: {"inv": {
            "every tunable attribute seen so far is bound to the entry at the documented key, with its own topic type":
                "forall(j, Int, implies(0 <= j and j < __i and is_tun(g_dir[j]), has(tunables, cattr(g_dir[j])) and tunables[cattr(g_dir[j])] is not None and "
                "tunables[cattr(g_dir[j])].key == tkey(entry(prefix), cname, cattr(g_dir[j]), g_dir[j]) and tunables[cattr(g_dir[j])].ttype is cattr(g_dir[j])._topic_type))",
            "only tunables are in the table": "forall(t, Ref_tunable, implies(has(tunables, t), exists(j, Int, 0 <= j and j < __i and is_tun(g_dir[j]) and t is cattr(g_dir[j]))))",
            "prefix string built": "prefix == base(entry(prefix), cname)",
        }, "body_post": {
            "C09.S2 the default overwrites the topic when writeDefault is set and preserves an existing value otherwise (exactly one of set / setDefault)":
                "implies(is_tun(n), (ntvalue.g_sets == heap_at_iter_start(ntvalue.g_sets) + 1 and ntvalue.g_setdefaults == heap_at_iter_start(ntvalue.g_setdefaults) and ntvalue.g_value is prop._ntdefault) "
                "if prop._ntwritedefault else (ntvalue.g_setdefaults == heap_at_iter_start(ntvalue.g_setdefaults) + 1 and ntvalue.g_sets == heap_at_iter_start(ntvalue.g_sets)))",
        }}},
        "ensures": {
            "C09.S1 each public tunable attribute A is bound to the topic /<prefix>/<name>/[<subtable>/]A (or /<name>/... without prefix) with the descriptor's topic type":
                "forall(j, Int, implies(0 <= j and j < len(g_dir) and is_tun(g_dir[j]), has(component._tunables, cattr(g_dir[j])) and "
                "component._tunables[cattr(g_dir[j])].key == tkey(prefix, cname, cattr(g_dir[j]), g_dir[j]) and component._tunables[cattr(g_dir[j])].ttype is cattr(g_dir[j])._topic_type))",
            "C09.S3 the per-instance table contains exactly this object's tunables (a fresh table per call: instances never share one)":
                "forall(t, Ref_tunable, implies(has(component._tunables, t), exists(j, Int, 0 <= j and j < len(g_dir) and is_tun(g_dir[j]) and t is cattr(g_dir[j]))))",
        },
    },
    "tunable.__get__": {
        "receivers": ["tunable"], "params": {"instance": "Ref:TunOwner", "owner": "py"}, "defaults": {"owner": None}, "returns": "Ref:PyObj", "raises": "KeyError", "modifies": [],
        "ensures": {"C09.G1 (also C02: a state's duration is read through its tunable) reading the attribute returns the current value of this instance's entry for this descriptor (class access returns the descriptor)":
                    "result is (instance._tunables[self].g_value if instance is not None else self)"},
        "ensures_raise": {"only for an object that was not set up": "instance is not None and not has(instance._tunables, self)"},
        "requires": {"entries exist": "implies(instance is not None, forall(t, Ref_tunable, implies(has(instance._tunables, t), instance._tunables[t] is not None)))"},
    },
    "tunable.__set__": {
        "receivers": ["tunable"], "params": {"instance": "Ref:TunOwner", "value": "Ref:PyObj"}, "raises": "KeyError",
        "requires": {"instance given": "instance is not None", "entries exist": "forall(t, Ref_tunable, implies(has(instance._tunables, t), instance._tunables[t] is not None))"},
        "modifies": ["NTEntry.g_value[*]", "NTEntry.g_exists[*]", "NTEntry.g_sets[*]"],
        "ensures": {"C09.G2 assigning the attribute sets this instance's entry for this descriptor (and no other entry)":
                    "instance._tunables[self].g_value is value and forall(e, Ref_NTEntry, implies(not (e is instance._tunables[self]), e.g_value is old(e.g_value)))"},
        "ensures_raise": {"only for an object that was not set up": "not has(instance._tunables, self)"},
    },
    "collect_feedbacks": {
        "params": {"component": "py", "cname": "Str", "prefix": "Opt[Str]"}, "defaults": {"prefix": "components"},
        "returns": "Seq[(Ref:Method,Ref:FbSetterW)]", "local_sorts": {"feedbacks": "Seq[(Ref:Method,Ref:FbSetterW)]"},
        "modifies": ["FbSetterW.target[*]", "FbSetterW.kind[*]"],
        "loops": {0: {"inv": {"table bound to the owner's path": "nt is not None and nt.path == base(entry(prefix), cname)", "list well formed": "len(feedbacks) >= 0",
                              "C11.K3 (so far) getters are the members seen (each once), setters are new, pairwise distinct objects":
                                  "forall(a, Int, implies(0 <= a and a < len(feedbacks), feedbacks[a][0] is not None and feedbacks[a][1] is not None and allocated(feedbacks[a][1]) and not old(allocated(feedbacks[a][1])) and "
                                  "exists(j, Int, 0 <= j and j < __i and feedbacks[a][0] is g_members[j][1]))) and "
                                  "forall(a, Int, forall(b, Int, implies(0 <= a and a < b and b < len(feedbacks), not (feedbacks[a][1] is feedbacks[b][1]) and "
                                  "exists(j, Int, exists(k, Int, 0 <= j and j < k and k < __i and feedbacks[a][0] is g_members[j][1] and feedbacks[b][0] is g_members[k][1])))))"},
                      "body_post": {
            "C11.K1 a @feedback method is paired with a setter of the entry/topic <owner path>/<key>, key = explicit key, else the method name with a leading 'get_' removed":
                {"when": "is_fb(method)", "then": "(len(feedbacks) == local_at_iter_start(len(feedbacks)) + 1 and feedbacks[len(feedbacks) - 1][0] is method and key == fkey(name, method) and "
                "(cast(feedbacks[len(feedbacks) - 1][1].target, 'NTEntry').key if feedbacks[len(feedbacks) - 1][1].kind == 0 else cast(feedbacks[len(feedbacks) - 1][1].target, 'Publisher').key) == base(entry(prefix), cname) + '/' + fkey(name, method))"},
            "C11.K2 other methods are not published": "implies(not is_fb(method), len(feedbacks) == local_at_iter_start(len(feedbacks)))",
        }}},
        "ensures": {"a list of (getter, setter) pairs": "len(result) >= 0",
                    "C11.K3 every pair holds an existing getter (a bound method of the object: one of inspect.getmembers' entries, each used once) and a new setter object; setters are pairwise distinct":
                        "forall(a, Int, implies(0 <= a and a < len(result), result[a][0] is not None and result[a][1] is not None and not old(allocated(result[a][1])) and "
                        "exists(j, Int, 0 <= j and j < len(g_members) and result[a][0] is g_members[j][1]))) and "
                        "forall(a, Int, forall(b, Int, implies(0 <= a and a < b and b < len(result), not (result[a][1] is result[b][1]) and "
                        "exists(j, Int, exists(k, Int, 0 <= j and j < k and k < len(g_members) and result[a][0] is g_members[j][1] and result[b][0] is g_members[k][1])))))",
                    "C11.K4 (W4) getters are pairwise distinct objects too": "forall(a, Int, forall(b, Int, implies(0 <= a and a < b and b < len(result), not (result[a][0] is result[b][0]))))"},
    },
}
NAMES = {"dir": ("contract", "tun.dir")}
DYN_GETATTR = {("setup_tunables", "getattr"): "tun.getattr_cls"}
CALL_OVERRIDES = {("_RawTopic.__init__", "ntcore.RawTopic"): "tt.new_raw", ("tunable.__set_name__", "typing.get_type_hints"): "tt.owner_hints", ("_get_topic_type", "typing.get_args"): "tt.get_args"}
EXPR_OVERRIDES = {("_get_topic_type_for_value", "Sequence[type(value[0])]"): ("tt.seq_hint", ["value"]),
                  ("_get_topic_type", "lambda topic: ntcore.StructTopic(topic, return_annotation)"): ("tt.struct_topic", ["return_annotation"]),
                  ("_get_topic_type", "lambda topic: ntcore.StructArrayTopic(topic, inner_type)"): ("tt.struct_array_topic", ["inner_type"]),
                  ("_get_topic_type", "len(set(args))"): ("tt.set_len", ["args"])}
NAMES.update({"_topic_types": ("global", "g_topic_types"), "_array_topic_types": ("global", "g_array_topic_types"), "tuple": ("dotted", "tuple"), "Ellipsis": ("dotted", "Ellipsis")})


def _lemmas():
    L = []
    p, c1, c2, n, n2 = z3.Strings("p c1 c2 n n2")
    noslash = lambda s: z3.Not(z3.Contains(s, z3.StringVal("/")))
    key = lambda pre, c, nm: z3.Concat(z3.StringVal("/"), pre, z3.StringVal("/"), c, z3.StringVal("/"), nm)
    L.append(("C09.L1 two objects set up under different names (no '/' in names) never get the same key for any attribute (no shared value) [the common '/<prefix>/' head cancelled]",
              [noslash(c1), noslash(c2), c1 != c2], z3.Concat(c1, z3.StringVal("/"), n) != z3.Concat(c2, z3.StringVal("/"), n2), None, {"solver": "cvc5"}))
    L.append(("C09.L2 under one name different attributes get different keys", [noslash(c1), noslash(n), noslash(n2), n != n2], key(p, c1, n) != key(p, c1, n2)))
    return L


LEMMAS = _lemmas()


def _dict_literal(ctx, name):
    v = ctx.source(FILE).module_assign(name)
    return {ast.unparse(k): ast.unparse(val) for k, val in zip(v.keys, v.values)} if isinstance(v, ast.Dict) else None


def _topic_tables(ctx):
    want1 = {"bool": "ntcore.BooleanTopic", "int": "ntcore.IntegerTopic", "float": "ntcore.DoubleTopic", "str": "ntcore.StringTopic", "bytes": "_RawTopic"}
    want2 = {"bool": "ntcore.BooleanArrayTopic", "int": "ntcore.IntegerArrayTopic", "float": "ntcore.DoubleArrayTopic", "str": "ntcore.StringArrayTopic"}
    t1, t2 = _dict_literal(ctx, "_topic_types"), _dict_literal(ctx, "_array_topic_types")
    # the bytes adapter wraps ntcore.RawTopic and passes the type string "raw" to getEntry() and publish()
    raw_ok = False
    for n in ctx.source(FILE).tree.body:
        if isinstance(n, ast.ClassDef) and n.name == "_RawTopic":
            txt = ast.unparse(n)
            raw_ok = "ntcore.RawTopic(topic)" in txt and "getEntry('raw', default)" in txt and "publish('raw')" in txt
    return t1 == want1 and t2 == want2 and raw_ok, f"_topic_types={t1}, _array_topic_types={t2}, raw adapter ok={raw_ok}"


STRUCTURAL = [("C09.T1 (also C11) the scalar and array topic-type tables map bool/int/float/str/bytes to the ntcore Boolean/Integer/Double/String/Raw (Array) topics", _topic_tables)]
ASSUMPTIONS = [
    "ntcore behaviour (assumed): an entry reads the latest value set from either side; set overwrites, setDefault preserves an existing value; topics are identified by their key; type strings follow the topic class",
    "reflection: dir(cls)/getattr(cls, n)/inspect.getmembers/get_type_hints; one descriptor object per attribute name",
    "_get_topic_type (annotation -> topic class: the table lookups and the PEP 484 generic-alias analysis) is the uninterpreted topic_of_hint, covered by the structural table check C09.T1 and the bounded native stand-in only; "
    "tunable.__init__ / __set_name__ / _get_topic_type_for_value are verified on top of it (typing.get_args / get_origin / get_type_hints assumed)",
    "names contain no '/' (key injectivity lemmas C09.L1/L2)",
]

"""C01-C04, C13 - magicbot.StateMachine / AutonomousStateMachine (magicbot/state_machine.py).

The property clauses are *site assertions* at the place where the framework hands control to a state
function (`state.run(self, tm, state_tm, initial_call)` inside execute()), where both the entry snapshot
old(.) and the current state are visible, plus postconditions of the public methods.  Histories are covered
by the object invariant: it is proved to hold again after every public method and at every callback, for
an arbitrary well-formed machine shape, arbitrary clock readings and arbitrary duration values.
"""
import ast
import z3
from pyvc.sorts import vbool

FILE = "magicbot/state_machine.py"
PROPS = ["C01", "C02", "C03", "C04", "C13"]

SM, ASM, SD = "StateMachine", "AutonomousStateMachine", "_StateData"
BIG = "4294967295"

GLOBALS = {"g_clk": "Real"}

_has_dur = z3.Function("has_duration_tunable", z3.StringSort(), z3.BoolSort())
SPEC_FUNCS = {"has_dur": lambda name: vbool(_has_dur(name.z))}

MACROS = {
    "SE(m)": "m._StateMachine__should_engage",
    "EN(m)": "m._StateMachine__engaged",
    "ST(m)": "m._StateMachine__state",
    "DF(m)": "m._StateMachine__default_state",
    "START(m)": "m._StateMachine__start",
    "STATES(m)": "m._StateMachine__states",
    "FIRST(m)": "m._StateMachine__first",
    "CS(m)": "m.nt_current_state",
    "valid(m, s)": "s is not None and has(STATES(m), s.name) and STATES(m)[s.name] is s",
    "refname(u)": "as_obj(u).name if is_obj(u) else as_str(u)",
    "target(m, s)": "STATES(m)[refname(unwrap(s.next_state))]",
    # the state that was current at entry of execute() has run and its time is over (tm is the current machine time)
    # machine time of this iteration in the time base the iteration started with (a machine started now has time 0)
    "tm0(m)": "0 if (not old(EN(m)) and old(SE(m))) else g_clk - old(START(m))",
    "expired0(m, tm)": "old(ST(m)) is not None and old(old(ST(m)).ran) and old(old(ST(m)).expires) < tm0(m)",
    "AFLAG(m)": "cast(m, 'AutonomousStateMachine')._AutonomousStateMachine__engaged",
    "timed(s)": "has_attr(s, 'next_state')",
}

CLASSES = {
    "_State": {"fields": {"name": "Str"}},
    SD: {
        "fields": {"name": "Str", "duration_attr": "Str", "expires": "Real", "ran": "Bool", "must_finish": "Bool",
                   "?next_state": "Bool", "next_state": "Opt[StrOr:_State]", "start_time": "Real"},
    },
    SM: {
        "fields": {
            "_StateMachine__should_engage": "Bool", "_StateMachine__engaged": "Bool",
            "_StateMachine__states": f"Map[Str,Ref:{SD}]", "_StateMachine__state": f"Ref:{SD}",
            "_StateMachine__default_state": f"Ref:{SD}", "_StateMachine__start": "Real", "_StateMachine__first": "Str",
            "nt_current_state": "Str", "g_done": "Int", "g_runs": "Int", "g_dur": "Real",
        },
        "alias": {"se": "SE(self)", "en": "EN(self)", "st": "ST(self)", "df": "DF(self)", "start": "START(self)",
                  "states": "STATES(self)", "first": "FIRST(self)", "cs": "CS(self)"},
        # well-formedness of the immutable state table (postcondition of _build_states, see C12)
        "wf": {
            "W1 the first state exists": "has(states, first)",
            "W2 table entries are state records carrying their own name": f"forall(k, Str, implies(has(states, k), states[k] is not None and states[k].name == k))",
            "W3 the default state, if any, is in the table and is must_finish": "implies(df is not None, valid(self, df) and df.must_finish and not timed(df))",
            "W4 next_state links name existing states": f"forall(s, Ref_{SD}, implies(valid(self, s) and timed(s) and s.next_state is not None, has(states, refname(unwrap(s.next_state)))))",
            "W8 the first state is not the default state": "not (states[first] is df)",
            "W7 an object-valued next_state link is a real _State object": f"forall(s, Ref_{SD}, implies(s.next_state is not None and is_obj(unwrap(s.next_state)), as_obj(unwrap(s.next_state)) is not None))",
            "W5 exactly the timed states have a duration tunable": f"forall(s, Ref_{SD}, implies(valid(self, s), has_dur(s.duration_attr) == timed(s)))",
        },
        "invariant": {
            "I_valid the current state is a state of this machine": "st is None or valid(self, st)",
            "I_clk the clock origin is not in the future": "0 <= start and start <= g_clk",
            "K1 a disengaged machine only holds a fresh, legitimately pending state": "implies(not en, st is None or st is df or (not st.ran and (se or not st.must_finish)))",
            "K2 a running state did not start in the future": "implies(st is not None and st.ran, st.start_time <= g_clk - start)",
            "K3 a requested but not yet started machine holds a fresh state": "implies(se and not en, st is None or not st.ran)",
            "I_stt states that ran have 0 <= start_time <= expires": f"forall(s, Ref_{SD}, implies(valid(self, s) and s.ran, 0 <= s.start_time and s.start_time <= s.expires))",
            "I_untimed untimed states never expire": f"forall(s, Ref_{SD}, implies(valid(self, s) and s.ran and not timed(s), s.expires >= {BIG}))",
            "C04.I_cs current_state is '' when stopped and names the current regular state otherwise": "implies(st is None, cs == '') and implies(st is not None and not (st is df), cs == st.name)",
            "C04.I_en is_executing implies a current state": "implies(en, st is not None)",
        },
    },
    ASM: {
        "bases": [SM],
        "fields": {"_AutonomousStateMachine__engaged": "Bool"},
        "alias": {"aflag": "self._AutonomousStateMachine__engaged"},
        "invariant": {
            "C13.AI1 once latched off the machine is stopped": "implies(not aflag, (st is None or st is df) and not en and not se)",
        },
    },
}

_SM_PRIV = ["self._StateMachine__should_engage", "self._StateMachine__engaged", "self._StateMachine__state",
            "self._StateMachine__start", "self.nt_current_state", "self.g_done", "self.g_runs", "self.g_dur",
            "self._AutonomousStateMachine__engaged", f"{SD}.ran[*]", f"{SD}.expires[*]", f"{SD}.start_time[*]", "g_clk"]
_CB_MOD = [f"{SM}._StateMachine__should_engage[*]", f"{SM}._StateMachine__engaged[*]", f"{SM}._StateMachine__state[*]",
           f"{SM}._StateMachine__start[*]", f"{SM}.nt_current_state[*]", f"{SM}.g_done[*]", f"{SM}.g_runs[*]", f"{SM}.g_dur[*]",
           f"{ASM}._AutonomousStateMachine__engaged[*]", f"{SD}.ran[*]", f"{SD}.expires[*]", f"{SD}.start_time[*]", "g_clk"]

R1 = {"C01.R1 only engage() raises the request flag": "implies(se, old(se))"}
_AUTO_USAGE = {ASM: {"usage: on an AutonomousStateMachine this is only called from on_iteration or a state function (the latch is on)": "aflag"}}

RECV = [SM, ASM]

CONTRACTS = {
    # ------------------------------------------------------------------ externals / callbacks
    "sm.getTime": {
        "kind": "external", "params": {}, "returns": "Real", "modifies": ["g_clk"],
        "ensures": {"reads the clock": "result == g_clk", "monotone": "g_clk >= old(g_clk)", "non-negative": "g_clk >= 0",
                    "below 2**32-1 s": f"g_clk < {BIG}"},
        "note": "getTime (FPGA timestamp or time.monotonic): monotone, 0 <= t < 2**32-1 seconds",
    },
    "sm.duration_of": {
        "kind": "external", "params": {"obj": f"Ref:{SM}", "name": "Str", "default": "Opt[Real]"}, "returns": "Opt[Real]",
        "modifies": ["obj.g_dur"],
        "ensures": {"timed states read their duration tunable, a non-negative number": "implies(has_dur(name), result is not None and unwrap(result) >= 0)",
                    "other states get the default (whatever the caller passes, None included)": "implies(not has_dur(name), result == default)",
                    "ghost: last duration read": "implies(result is not None, obj.g_dur == unwrap(result))"},
        "note": "getattr(self, '<state>_duration', 0xFFFFFFFF): the value of the duration tunable at entry (arbitrary >= 0; see C09 for the NT key)",
    },
    f"{SM}.current_state.__get__": {
        "kind": "external", "params": {}, "returns": "Str", "modifies": [], "ensures": {"the NT value": "result == self.nt_current_state"},
        "note": "reading the current_state tunable (C09): the string last assigned",
    },
    f"{SM}.current_state.__set__": {
        "kind": "external", "params": {"value": "Str"}, "modifies": ["self.nt_current_state"],
        "ensures": {"the NT value is the assigned string": "self.nt_current_state == value"},
        "note": "tunable descriptor write (semantics of tunable.__set__: C09)",
    },
    f"{SD}.run": {
        "kind": "callback",
        "params": {"sm": f"Ref:{SM}", "tm": "Real", "state_tm": "Real", "initial_call": "Bool"},
        "raises": True,
        "assert_inv_of": ["sm"], "assume_inv_of": ["sm"],
        "modifies": _CB_MOD,
        "site_asserts": {
            "C01.A1 (also C04: once engage() stops, no regular state runs) a regular (non-default, non-must_finish) state only runs if engage() was called since the previous iteration":
                "implies(not (self is DF(sm)) and not self.must_finish, old(SE(sm)))",
            "C01.S1 without engage() a non-default state only runs if the machine had not stopped (a non-default state was current at entry)":
                "implies(not (self is DF(sm)) and not old(SE(sm)), old(ST(sm)) is not None and not (old(ST(sm)) is DF(sm)))",
            "C02.B2 on entry the expiry is start_time + the duration read now": f"implies(initial_call, self.expires == self.start_time + (sm.g_dur if timed(self) else {BIG}))",
            "C02.B6 the duration is the tunable's value AT ENTRY: while the same stint continues the expiry does not move": "implies(not initial_call, self.expires == old(self.expires) and self.start_time == old(self.start_time))",
            "C02.B3 the current state keeps running until tm exceeds its expiry (and runs once before it can expire)":
                "implies(old(ST(sm)) is not None and not expired0(sm, tm) and (old(SE(sm)) or old(ST(sm)).must_finish), "
                "self is old(ST(sm)) and initial_call == (not old(self.ran)))",
            "C02.B4 on expiry control passes to next_state, whose clock starts at the predecessor's expiry":
                "implies(expired0(sm, tm) and old(ST(sm)).next_state is not None and (old(SE(sm)) or target(sm, old(ST(sm))).must_finish), "
                "self is target(sm, old(ST(sm))) and initial_call and self.start_time == old(old(ST(sm)).expires))",
            "C02.B5 (also C03, C04: tm restarts at zero at the expiry instant) when the last timed state expires under continued engagement the first state restarts at the expiry instant":
                "implies(expired0(sm, tm) and old(ST(sm)).next_state is None and not (self is DF(sm)), "
                "self is STATES(sm)[FIRST(sm)] and initial_call and self.start_time == 0 and EN(sm) "
                "and START(sm) == old(START(sm)) + old(old(ST(sm)).expires) and sm.g_done > old(sm.g_done))",
            "C02.T4 state_tm is never negative": "state_tm >= 0",
            "C03.A4 state_tm is the time since the state was entered": "state_tm == tm - self.start_time",
            "C03.A5 tm is the time since the machine (re)started, never negative": "tm == g_clk - START(sm) and tm >= 0",
            "C03.A6 initial_call is True exactly on the first call after an entry":
                "initial_call == (not (self is old(ST(sm)) and old(self.ran) and not expired0(sm, tm)))",
            "C03.A6b the state is marked as having run": "self.ran",
            "C03.A7 on consecutive calls neither clock origin moves (so tm and state_tm are non-decreasing)":
                "implies(not initial_call, self.start_time == old(self.start_time) and START(sm) == old(START(sm)))",
            "C03.A8 (also C04, C13: tm restarts at zero) a machine started in this iteration has tm == 0": "implies(old(SE(sm)) and not old(EN(sm)) and not (self is DF(sm)), tm == 0)",
            "C04.A2 falling back to the default state goes through done()":
                "implies(self is DF(sm) and old(ST(sm)) is not None and not (old(ST(sm)) is DF(sm)) "
                "and not (expired0(sm, tm) and old(ST(sm)).next_state is not None and target(sm, old(ST(sm))) is DF(sm)), "
                "sm.g_done > old(sm.g_done) and not EN(sm))",
            "C04.A3 while a regular state runs is_executing is True and current_state names it":
                "implies(not (self is DF(sm)), EN(sm) and CS(sm) == self.name)",
            "C04.A5 the state that runs is the machine's current state": "self is ST(sm) and valid(sm, self)",
        },
        "ensures": {
            "ghost counters are monotone": "sm.g_done >= old(sm.g_done) and sm.g_runs >= old(sm.g_runs) + 1",
            "clock monotone": f"g_clk >= old(g_clk) and g_clk < {BIG}",
            "CB-K1 (usage assumption, = known finding F3) a state function does not leave a disengaged machine with a must_finish state pending":
                "implies(not EN(sm), ST(sm) is None or ST(sm) is DF(sm) or (not ST(sm).ran and not ST(sm).must_finish))",
        },
        "ensures_raise": {"clock monotone": "g_clk >= old(g_clk)"},
        "note": "user state function: arbitrary, may call engage/next_state/next_state_now/done on the machine (havoc under the invariant)",
    },
    # ------------------------------------------------------------------ repo methods
    f"{SM}.is_executing.__get__": {
        "source": f"{SM}.is_executing", "receivers": RECV, "inv": True, "params": {}, "returns": "Bool", "modifies": [],
        "ensures": {"C04.Q1 is_executing is the engaged flag": "result == en"},
    },
    f"{SM}.on_enable": {"receivers": RECV, "inv": True, "params": {}, "modifies": [], "ensures": {}},
    f"{SM}.on_disable": {
        "receivers": RECV, "inv": True, "params": {},
        "modifies": ["self._StateMachine__state", "self._StateMachine__engaged", "self.nt_current_state", "self.g_done",
                     "self._StateMachine__should_engage", "self._AutonomousStateMachine__engaged"],
        "ensures": dict({"C04.D1 on_disable stops the machine through done()": "st is None and not en and cs == '' and g_done_up(self)"}, **R1),
        "ensures_for": {ASM: {"C13.D2 on_disable stops the autonomous machine immediately": "not aflag and not se"}},
    },
    f"{SM}.done": {
        "receivers": [SM], "inv": True, "params": {}, "inv_exclude_pre": ["C04.I_en", "C13.AI1"],
        "modifies": ["self._StateMachine__state", "self._StateMachine__engaged", "self.nt_current_state", "self.g_done"],
        "ghost_exit": {"self.g_done": "old(self.g_done) + 1"},
        "ensures": dict({"C04.D0 done() resets the machine": "st is None and not en and cs == ''",
                         "done counted": "self.g_done == old(self.g_done) + 1"}, **R1),
    },
    f"{ASM}.done": {
        "receivers": [ASM], "inv": True, "params": {}, "inv_exclude_pre": ["C04.I_en", "C13.AI1"],
        "modifies": ["self._StateMachine__state", "self._StateMachine__engaged", "self.nt_current_state", "self.g_done",
                     "self._StateMachine__should_engage", "self._AutonomousStateMachine__engaged"],
        "ensures": {"C04.D0 done() resets the machine": "st is None and not en and cs == ''",
                    "done counted": "self.g_done == old(self.g_done) + 1",
                    "C13.D1 done() withdraws the request and latches the autonomous machine off": "not se and not aflag"},
    },
    f"{SM}.engage": {
        "receivers": RECV, "inv": True, "params": {"initial_state": "Opt[StrOr:_State]", "force": "Bool"},
        "defaults": {"initial_state": None, "force": False},
        "raises": "KeyError", "requires_for": _AUTO_USAGE, "inv_exclude_raise": ["K3"],
        "modifies": ["self._StateMachine__should_engage", "self._StateMachine__state", "self.nt_current_state", f"{SD}.ran[*]"],
        "ensures": {
            "C01.E1 engage() records the request": "se",
            "C04.E2 a stopped (or forced) machine is pointed at the requested initial state, else the first state, as a fresh entry":
                "implies(force or old(st) is None or old(st) is df, "
                "st is (states[refname(unwrap(initial_state))] if truthy(initial_state) else states[first]) and not st.ran and cs == st.name)",
            "C01.E3 a running machine is left alone": "implies(not (force or old(st) is None or old(st) is df), st is old(st) and st.ran == old(st.ran) and cs == old(cs))",
            "only the target becomes fresh": f"forall(s, Ref_{SD}, implies(not (s is st), s.ran == old(s.ran)))",
        },
        "ensures_raise": {"KeyError only for an unknown initial_state": "truthy(initial_state) and not has(states, refname(unwrap(initial_state)))"},
    },
    f"{SM}.next_state": {
        "receivers": RECV, "inv": True, "params": {"state": "StrOr:_State"}, "raises": "KeyError",
        "inv_exclude_pre": ["K3", "C04.I_en"],
        "requires": {"usage (docstring: only from a state function / engage; = known finding F3): not used to make a must_finish state current on a disengaged, unrequested machine":
                     "implies(has(states, refname(state)), en or se or not states[refname(state)].must_finish or states[refname(state)] is df)"},
        "requires_for": _AUTO_USAGE,
        "modifies": ["self._StateMachine__state", "self.nt_current_state", f"{SD}.ran[*]"],
        "ensures": {"C03.N1 the named state becomes current as a fresh entry": "has(states, refname(state)) and st is states[refname(state)] and not st.ran and cs == refname(state)",
                    "only the target becomes fresh": f"forall(s, Ref_{SD}, implies(not (s is st), s.ran == old(s.ran)))"},
        "ensures_raise": {"KeyError only for an unknown state": "not has(states, refname(state))",
                          "nothing changed": f"st is old(st) and cs == old(cs) and forall(s, Ref_{SD}, s.ran == old(s.ran))"},
    },
    f"{SM}.next_state_now": {
        "receivers": RECV, "inv": True, "inv_on_raise": False, "params": {"state": "StrOr:_State"}, "raises": True,
        "requires": {"usage (as next_state)": "implies(has(states, refname(state)), en or se or not states[refname(state)].must_finish or states[refname(state)] is df)"},
        "requires_for": _AUTO_USAGE,
        "modifies": _CB_MOD,
        "ensures": dict({"C01.X0 the request is consumed": "not se"}, **R1),
    },
    f"{SM}.execute": {
        "receivers": RECV, "inv": True, "inv_on_raise": False, "params": {}, "raises": True,
        "requires_for": {ASM: {"usage: on an AutonomousStateMachine execute() runs from on_iteration or a state function (latch on) - or does nothing because nothing was requested":
                               "aflag or not se"}},
        "modifies": _CB_MOD,
        "ensures": dict({
            "C01.X0 (also C13: the autonomous machine's per-iteration engage() must still be pending while the state function runs) the request is consumed at the end of the iteration": "not se",
            "C01.X1 if engage() was called and done() was not invoked, a state function ran": "implies(old(se) and self.g_done == old(self.g_done), self.g_runs > old(self.g_runs))",
            "C04.X3 when no state function ran and the machine had something to stop, it is stopped through done()":
                "implies(self.g_runs == old(self.g_runs) and (old(se) or old(en)), st is None and not en and cs == '' and self.g_done > old(self.g_done))",
            "C04.X4 after the iteration a running regular state means is_executing and current_state names it":
                "implies(st is not None and not (st is df) and st.ran, en and cs == st.name)",
        }, **R1),
        "ensures_for": {ASM: {"C13.X5 an autonomous machine that was asked to run and is no longer executing holds no regular state": "implies(old(se) and not en, st is None or st is df)"}},
        "ensures_raise": {},
    },
    f"{ASM}.on_enable": {
        "receivers": [ASM], "inv": True, "params": {}, "modifies": ["self._AutonomousStateMachine__engaged"],
        "ensures": {"C13.O1 on_enable arms the latch and touches nothing else": "aflag"},
    },
    f"{ASM}.on_iteration": {
        "receivers": [ASM], "inv": True, "inv_on_raise": False, "params": {"tm": "Real"}, "raises": True,
        "modifies": _CB_MOD,
        "ensures": {
            "C13.L1 once latched off nothing runs and nothing changes until on_enable": "implies(not old(aflag), not aflag and self.g_runs == old(self.g_runs) and st is old(st) and not en and not se and self.g_done == old(self.g_done))",
            "C13.L2 while armed it behaves as engage(); execute() and the latch follows is_executing": "implies(old(aflag), aflag == en and not se)",
            "C13.L3 an armed machine that was not stopped by done() ran a state function": "implies(old(aflag) and self.g_done == old(self.g_done), self.g_runs > old(self.g_runs))",
        },
    },
}
# receiver-specific site assertion: the autonomous machine never cycles back to its first state (C13)
CONTRACTS[f"{SD}.run"]["site_asserts_for"] = {
    ASM: {"C13.N1 an AutonomousStateMachine never restarts after its last timed state expired":
          "not (expired0(sm, tm) and old(ST(sm)).next_state is None and not (self is DF(sm)))",
          "C13.N2 a regular state function of an AutonomousStateMachine only runs while the latch is on": "implies(not (self is DF(sm)), AFLAG(sm))"},
}
CONTRACTS[f"{SD}.run"]["ensures_for_caller"] = {
    ASM: {"CB-A1 (usage assumption, = known finding F4) a state function of an AutonomousStateMachine that stops the machine does not make another state current afterwards":
          "implies(not EN(sm), ST(sm) is None or ST(sm) is DF(sm))",
          "the latch is only touched by on_enable/on_iteration/done": "implies(AFLAG(sm) != old(AFLAG(sm)), not AFLAG(sm) and ST(sm) is None and not SE(sm) and not EN(sm))"},
}

MACROS["g_done_up(m)"] = "m.g_done == old(m.g_done) + 1"

NAMES = {"getTime": ("contract", "sm.getTime")}
DYN_GETATTR = {(f"{SM}.execute", "getattr"): "sm.duration_of"}


def _single_run_site(ctx):
    src = ctx.source(FILE)
    fn, _ = src.find(f"{SM}.execute")
    calls = [n for n in ast.walk(fn) if isinstance(n, ast.Call) and isinstance(n.func, ast.Attribute) and n.func.attr == "run"]
    loops = [n for n in ast.walk(fn) if isinstance(n, (ast.For, ast.While))]
    return len(calls) == 1 and not loops, f"{len(calls)} state.run call site(s), {len(loops)} loop(s) in execute()"


STRUCTURAL = [("C01.X2 execute() has exactly one state-function call site and no loop: at most one state function per activation", _single_run_site)]

ASSUMPTIONS = [
    "machine shape: the state table is well formed (wf W1-W6 = postcondition of _build_states; see C12)",
    "user state functions change framework-private state only through engage/next_state/next_state_now/done (callback havoc under the invariant)",
    "usage assumption CB-K1 / next_state precondition (known finding F3): next_state(<must_finish state>) is not used on a disengaged, unrequested machine",
    "usage assumption CB-A1 (known finding F4): a state function of an AutonomousStateMachine does not call next_state after done()",
    "an overriding done() calls super().done() (behavioural subtyping, as the docstring demands)",
    "clock monotone, 0 <= t < 2**32-1 s; duration tunables are >= 0",
    "an exception escaping a state function aborts the iteration (the request flag is then not reset) - outside C01-C04/C13",
    "composition 'on_enable(); on_iteration() starts the first state at tm 0' is the chain engage-post (C04.E2) + C03.A8 + C02.B3, read off the three contracts",
]

# ---------------------------------------------------------------------------------------------------
# known-finding probes: the same real functions verified WITHOUT the usage assumption; the named obligation is
# expected to fail there (that failure *is* the known finding; see known_findings.json and native/kf/).
import copy as _copy
_p = _copy.deepcopy(CONTRACTS[f"{SM}.next_state"])
_p.update({"source": f"{SM}.next_state", "requires": {}, "receivers": [SM], "probe": True,
           "probe_only": ["invariant K1 a disengaged machine only holds a fresh, legitimately pending state at exit"]})
CONTRACTS[f"{SM}.next_state#F3-without-usage-assumption"] = _p
_p = _copy.deepcopy(CONTRACTS[f"{SM}.execute"])
_p.update({"source": f"{SM}.execute", "receivers": [ASM], "probe": True,
           "drop_callee_ensures": {f"{SD}.run": ["CB-A1"]},
           "probe_only": ["ensures C13.X5"]})
CONTRACTS[f"{SM}.execute#F4-without-CB-A1"] = _p
# methods of invariant-carrying classes that are deliberately not under contract in THIS sidecar (checked structurally: any other
# uncontracted method makes the check undecided): construction is verified in contracts/smdef.py and establishes the invariant
UNCONTRACTED_OK = {"StateMachine": ["__new__", "_build_states"]}

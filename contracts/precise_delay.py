"""C16 - NotifierDelay: contracts on the real methods of robotpy_ext/misc/precise_delay.py.

Ghost fields of a NotifierDelay: g_t0 (FPGA time read by the constructor) and g_k (number of completed
waits).  The grid is t0 + k*P; the object invariant ties the private expiry time and the HAL alarm to it."""
FILE = "robotpy_ext/misc/precise_delay.py"
PROPS = ["C16"]

CLASSES = {
    "ExcInfo": {"fields": {}},       # the (type, value, traceback) arguments of __exit__: arbitrary objects or None
    "NotifierDelay": {
        "fields": {"delay_period": "Int", "_notifier": "Ref:Handle", "_expiry_time": "Int", "g_t0": "Int", "g_k": "Int"},
        "alias": {"P": "self.delay_period", "h": "self._notifier", "t0": "self.g_t0", "k": "self.g_k"},
        "invariant": {
            "C16.I1 period is at least 1 ms": "P >= 1000",
            "I2 k counts completed waits": "k >= 0",
            "C16.I3 (also C05: one iteration per period) next expiry is on the grid: expiry == t0 + (k+1)*P": "implies(h is not None, self._expiry_time == t0 + (k + 1) * P)",
            "C16.I4 (also C05: one iteration per period) the HAL alarm is the next grid point and the handle is live": "implies(h is not None, h.alarm == self._expiry_time and h.cleaned == 0)",
        },
    },
}

CONTRACTS = {
    "NotifierDelay.__init__": {
        "receivers": ["NotifierDelay"], "params": {"delay_period": "Real"}, "ctor": True, "inv": True,
        "raises": "ValueError",
        "ghost_exit": {"self.g_t0": "g_now", "self.g_k": "0"},
        "ensures": {"C16.N1 accepted periods are >= 1 ms": "delay_period >= 0.001",
                    "C16.N2 (also C05: one iteration per period) first alarm at t0 + P": "h is not None and h.alarm == g_now + P and t0 == g_now and k == 0",
                    "clock untouched": "g_now == old(g_now)"},
        "ensures_raise": {"C16.N3 only periods below 1 ms are rejected": "delay_period < 0.001"},
        "modifies": ["self.delay_period", "self._notifier", "self._expiry_time", "self.g_t0", "self.g_k", "Handle.alarm[*]", "Handle.updates[*]"],
    },
    "NotifierDelay._update_alarm": {
        "receivers": ["NotifierDelay"], "params": {"handle": "Ref:Handle"},
        "requires": {"handle is live": "handle is not None and handle.cleaned == 0"},
        "modifies": ["handle.alarm", "handle.updates"],
        "ensures": {"alarm := expiry": "handle.alarm == self._expiry_time", "one HAL update": "handle.updates == old(handle.updates) + 1"},
    },
    "NotifierDelay.wait": {
        "receivers": ["NotifierDelay"], "params": {}, "inv": True,
        "ghost_exit": {"self.g_k": "old(k) + 1 if old(h) is not None else old(k)"},
        "modifies": ["self._expiry_time", "self.g_k", "g_now", "Handle.alarm[*]", "Handle.updates[*]"],
        "ensures": {
            "C16.W1 (also C05: one iteration per period) the k-th wait never returns before t0 + k*P": "implies(old(h) is not None, g_now >= t0 + k * P)",
            "C16.W2 (also C05: one iteration per period) returns exactly at t0 + k*P when the body had finished by then": "implies(old(h) is not None and old(g_now) <= t0 + k * P, g_now == t0 + k * P)",
            "C16.W3 (also C05: one iteration per period) an overrun is not waited for again (returns at once)": "implies(old(h) is not None and old(g_now) >= t0 + k * P, g_now == old(g_now))",
            "C16.W4 (also C05: one iteration per period) next alarm is the next grid point whatever the body took": "implies(old(h) is not None, h is not None and h.alarm == t0 + (k + 1) * P)",
            "C16.W5 after free() wait returns immediately and touches nothing": "implies(old(h) is None, g_now == old(g_now) and h is None and self._expiry_time == old(self._expiry_time))",
            "grid origin fixed": "t0 == old(t0) and P == old(P)",
            "k counts the completed waits": "k == (old(k) + 1 if old(h) is not None else old(k)) and (h is None) == (old(h) is None)",
        },
    },
    "NotifierDelay.free": {
        "receivers": ["NotifierDelay"], "params": {}, "inv": True,
        "modifies": ["self._notifier", "Handle.stops[*]", "Handle.cleaned[*]"],
        "ensures": {
            "C16.F1 the notifier is released": "h is None",
            "C16.F2 stop and clean exactly once": "implies(old(h) is not None, old(h).stops == old(old(h).stops) + 1 and old(h).cleaned == old(old(h).cleaned) + 1)",
            "C16.F3 idempotent: nothing happens when already freed": "implies(old(h) is None, forall(x, Ref_Handle, x.stops == old(x.stops) and x.cleaned == old(x.cleaned)))",
            "clock untouched": "g_now == old(g_now)",
        },
    },
    "NotifierDelay.__exit__": {
        "receivers": ["NotifierDelay"], "params": {"exc_type": "Ref:ExcInfo", "exc_val": "Ref:ExcInfo", "exc_tb": "Ref:ExcInfo"}, "inv": True,
        "modifies": ["self._notifier", "Handle.stops[*]", "Handle.cleaned[*]"],
        "ensures": {"C16.F4 leaving the with-block releases the notifier": "h is None"},
    },
    "NotifierDelay.__enter__": {
        "receivers": ["NotifierDelay"], "params": {}, "inv": True, "returns": "Ref:NotifierDelay",
        "modifies": [], "ensures": {"returns self": "result is self"},
    },
    "NotifierDelay.__del__": {
        "receivers": ["NotifierDelay"], "params": {}, "inv": True,
        "modifies": ["self._notifier", "Handle.stops[*]", "Handle.cleaned[*]"],
        "ensures": {"released": "h is None"},
    },
}

ASSUMPTIONS = [
    "HAL notifier semantics (ext_hal): waitForNotifierAlarm returns at max(now, alarm); validated natively under simulated time by native/validate_hal.py (bounded)",
    "the FPGA clock only advances inside waitForNotifierAlarm or between method calls",
    "int(delay_period*1e6) computed over the reals (floor); float rounding of the product is not modelled",
]

"""C14 discovery half - AutonomousModeSelector.__init__ (robotpy_ext/autonomous/selector.py) under contract.

The constructor is verified statement by statement; what it calls into the interpreter / operating system for
(importlib, glob, os.path, inspect.getmembers, set(), sorted(), the SendableChooser and SmartDashboard) are assumed
contracts listed below.  Failures of user code (a module that fails to import, a mode constructor that raises) are
arbitrary exceptions (UserBaseException: only a bare `except:` stops them) and are counted in the ghost g_faults.

What is proved for every package layout / member list / flag combination / FMS state:
  D0  every module file of the package is listed once (directories de-duplicated)           [loop 0 invariant]
  D1  only classes that define MODE_NAME (not None) and are not DISABLED are instantiated   [site assertion]
  D2  each such class is instantiated exactly once when it is visited, others never         [inner loop body_post]
  D3  a successfully created instance is offered; earlier (healthy) modes stay offered      [inner loop body_post]
  D4  a duplicate name is tolerated only with the FMS attached                               [inner loop body_post]
  M2  a mode is keyed by anything else than its MODE_NAME only with the FMS attached        [invariant / ensures]
  O1  every discovered mode is a chooser option under its key, and 'None' is offered        [ensures]
  O2  the single DEFAULT mode is preselected, 'None' when no mode is marked                  [ensures]
  F1  with the FMS attached start-up raises only if importing the package itself fails      [ensures_raise]
  F2  without the FMS a normal return means: nothing failed, at most one DEFAULT            [ensures]
"""
import z3
from pyvc.sorts import Ref, vref, vbool

FILE = "robotpy_ext/autonomous/selector.py"
PROPS = ["C14"]
SEL, AM, MC = "AutonomousModeSelector", "AutoMode", "ModeClass"
INIT = f"{SEL}.__init__"

GLOBALS = {"g_fms": "Bool", "g_faults": "Int", "g_pkg_failed": "Bool", "g_items": f"Seq[(Str,Ref:{AM})]"}
_dir_of = z3.Function("directory_of_file", z3.StringSort(), z3.StringSort())
_item_index = z3.Function("index_of_key_in_sorted_items", z3.StringSort(), z3.IntSort())     # hand-skolemised witness of 'every key occurs in sorted(d.items())' (one call site)
SPEC_FUNCS = {"item_index": lambda k: __import__("pyvc.sorts", fromlist=["vint"]).vint(_item_index(k.z)), "dir_of": lambda f: __import__("pyvc.sorts", fromlist=["vstr"]).vstr(_dir_of(f.z))}
MACROS = {
    "eligible(c)": "has_attr(c, 'MODE_NAME') and c.MODE_NAME is not None and not (has_attr(c, 'DISABLED') and c.DISABLED)",
    "is_default(v)": "has_attr(v, 'DEFAULT') and v.DEFAULT",
    "modes_ok(s)": "wf_map(s.modes) and forall(k, Str, implies(has(s.modes, k), s.modes[k] is not None and (s.modes[k].MODE_NAME == k or g_fms)))",
    "faults_ok()": "implies(not g_fms, g_faults == old(g_faults)) and g_faults >= old(g_faults)",
}
CLASSES = {
    "PyObj": {"fields": {}},
    "ExcObj": {"fields": {"name": "Opt[Str]"}},
    "PyModule": {"fields": {"?__file__": "Bool", "__file__": "Opt[Str]", "?__path__": "Bool", "__path__": "Opt[Seq[Str]]"}},
    MC: {"fields": {"?MODE_NAME": "Bool", "MODE_NAME": "Opt[Str]", "?DISABLED": "Bool", "DISABLED": "Bool", "g_inst_cnt": "Int", "g_last_inst": f"Ref:{AM}"}},
    AM: {"fields": {"MODE_NAME": "Str", "?DEFAULT": "Bool", "DEFAULT": "Bool", "g_cls": f"Ref:{MC}"}},
    "Chooser": {"fields": {"g_opts": f"Map[Str,Ref:{AM}]", "g_default": f"Ref:{AM}", "g_defaults_set": "Int"}},
    SEL: {"fields": {"modes": f"Map[Str,Ref:{AM}]", "active_mode": f"Ref:{AM}", "robot_exit": "Bool", "chooser": "Ref:Chooser"}},
}

_OPT_SET = ("has(self.g_opts, name) and self.g_opts[name] is obj and wf_map(self.g_opts) and "
            "forall(k, Str, implies(k != name, has(self.g_opts, k) == has(old(self.g_opts), k) and self.g_opts[k] is old(self.g_opts)[k]))")
CONTRACTS = {
    # ---------------------------------------------------------------- interpreter / OS / wpilib externals (assumed)
    "disc.import_pkg": {"kind": "external", "params": {"name": "Str"}, "returns": "Ref:PyModule", "raises": ["ImportError", True], "modifies": ["g_pkg_failed"],
                        "ensures": {"the package module": "result is not None and not g_pkg_failed"}, "ensures_raise": {"package import failed": "g_pkg_failed"},
                        "note": "importlib.import_module(<package>): may fail with ImportError (no such package / a missing dependency) or anything the package's __init__ raises"},
    "disc.import_module": {"kind": "external", "params": {"name": "Str", "package": "Str"}, "returns": "Ref:PyModule", "raises": True, "modifies": ["g_faults"],
                           "ensures": {"the module": "result is not None and g_faults == old(g_faults)"}, "ensures_raise": {"a failing import is a user fault": "g_faults == old(g_faults) + 1"},
                           "note": "importlib.import_module('.<module>', <package>): user code, may raise anything"},
    "disc.instantiate": {"kind": "external", "params": {"cls": f"Ref:{MC}", "args": "py", "kwargs": "py"}, "returns": f"Ref:{AM}", "returns_fresh": True, "raises": True,
                         "requires": {"class object": "cls is not None"},
                         "site_asserts": {"C14.D1 only a class that defines MODE_NAME (not None) and is not marked DISABLED is instantiated": "eligible(cls)"},
                         "modifies": ["cls.g_inst_cnt", "cls.g_last_inst", "g_faults"],
                         "ensures": {"a new instance of that class; class attributes are visible through it": "result.g_cls is cls and result.MODE_NAME == unwrap(cls.MODE_NAME) and cls.g_last_inst is result and cls.g_inst_cnt == old(cls.g_inst_cnt) + 1 and g_faults == old(g_faults)"},
                         "ensures_raise": {"a failing constructor is a user fault": "cls.g_inst_cnt == old(cls.g_inst_cnt) + 1 and cls.g_last_inst is old(cls.g_last_inst) and g_faults == old(g_faults) + 1"},
                         "note": "obj(*args, **kwargs): user constructor; returns a NEW object whose MODE_NAME is the class attribute (assumed: __init__ does not shadow it)"},
    "disc.members": {"kind": "external", "params": {"module": "Ref:PyModule", "pred": "py"}, "returns": f"Seq[(Str,Ref:{MC})]",
                     "ensures": {"(name, class) pairs; the members of None (a module that failed to import) define no MODE_NAME":
                                 "len(result) >= 0 and forall(j, Int, implies(0 <= j and j < len(result), result[j][1] is not None and implies(module is None, not has_attr(result[j][1], 'MODE_NAME'))))"},
                     "note": "inspect.getmembers(module, inspect.isclass); for module None it yields [('__class__', NoneType)]"},
    "disc.set": {"kind": "external", "params": {"xs": "Seq[Str]"}, "returns": "Seq[Str]",
                 "ensures": {"a set holds every element once (modelled as its iteration sequence)":
                             "len(result) >= 0 and forall(a, Int, forall(b, Int, implies(0 <= a and a < b and b < len(result), result[a] != result[b]))) and "
                             "forall(j, Int, implies(0 <= j and j < len(result), exists(i, Int, 0 <= i and i < len(xs) and xs[i] == result[j]))) and "
                             "implies(len(xs) > 0, len(result) > 0)"},
                 "note": "set(iterable) followed by list(): distinct elements, arbitrary order (builtin semantics, assumed)"},
    "disc.glob": {"kind": "external", "params": {"pattern": "Str"}, "returns": "Seq[Str]",
                  "ensures": {"distinct files, all in the pattern's directory":
                              "len(result) >= 0 and forall(a, Int, forall(b, Int, implies(0 <= a and a < b and b < len(result), result[a] != result[b]))) and "
                              "forall(j, Int, implies(0 <= j and j < len(result), dir_of(result[j]) == dir_of(pattern)))"},
                  "note": "glob(os.path.join(d, '*.py')): the files of directory d, each once"},
    "os.path.join": {"kind": "external", "params": {"d": "Str", "f": "Str"}, "returns": "Str", "ensures": {"a path inside d": "dir_of(result) == d"}, "note": "os.path.join(dir, name)"},
    "os.path.dirname": {"kind": "external", "params": {"p": "Str"}, "returns": "Str", "ensures": {}, "note": "os.path"},
    "os.path.abspath": {"kind": "external", "params": {"p": "Str"}, "returns": "Str", "ensures": {}, "note": "os.path"},
    "os.path.basename": {"kind": "external", "params": {"p": "Str"}, "returns": "Str", "ensures": {}, "note": "os.path"},
    "wpilib.DriverStation.isFMSAttached": {"kind": "external", "params": {}, "returns": "Bool", "ensures": {"FMS flag (stable during start-up)": "result == g_fms"}, "note": "wpilib"},
    "disc.sorted_items": {"kind": "external", "params": {"m": f"Map[Str,Ref:{AM}]"}, "returns": f"Seq[(Str,Ref:{AM})]", "pure_result": "g_items",
                          "ensures": {"the (key, value) pairs of the dict, each key once":
                                      "len(result) >= 0 and forall(j, Int, implies(0 <= j and j < len(result), has(m, result[j][0]) and result[j][1] is m[result[j][0]])) and "
                                      "forall(a, Int, forall(b, Int, implies(0 <= a and a < b and b < len(result), result[a][0] != result[b][0]))) and "
                                      "forall(k, Str, implies(has(m, k), 0 <= item_index(k) and item_index(k) < len(result) and result[item_index(k)][0] == k))"},
                          "note": "sorted(d.items()): builtin semantics, assumed (the order itself is not used)"},
    "disc.new_chooser": {"kind": "external", "params": {}, "returns": "Ref:Chooser", "returns_fresh": True,
                         "ensures": {"empty chooser": "wf_map(result.g_opts) and forall(k, Str, not has(result.g_opts, k)) and result.g_default is None and result.g_defaults_set == 0"}, "note": "wpilib.SendableChooser()"},
    "Chooser.setDefaultOption": {"kind": "external", "params": {"name": "Str", "obj": f"Ref:{AM}"}, "modifies": ["self.g_opts", "self.g_default", "self.g_defaults_set"],
                                 "ensures": {"option added and preselected": _OPT_SET + " and self.g_default is obj and self.g_defaults_set == old(self.g_defaults_set) + 1"}, "note": "wpilib.SendableChooser.setDefaultOption"},
    "Chooser.addOption": {"kind": "external", "params": {"name": "Str", "obj": f"Ref:{AM}"}, "modifies": ["self.g_opts"], "ensures": {"option added": _OPT_SET}, "note": "wpilib.SendableChooser.addOption"},
    "wpilib.SmartDashboard.putData": {"kind": "external", "params": {"key": "py", "data": "py"}, "ensures": {}, "note": "wpilib"},
    "wpilib.SmartDashboard.putStringArray": {"kind": "external", "params": {"key": "py", "value": "py"}, "ensures": {}, "note": "wpilib"},
    # ---------------------------------------------------------------- the constructor
    INIT: {
        "receivers": [SEL], "ctor": True, "prefer": "cvc5", "params": {"autonomous_pkgname": "Str", "args": "py", "kwargs": "py"}, "raises": True,
        "ghost_entry": {"g_pkg_failed": "False"},
        "local_sorts": {"modules": "Seq[Str]", "pkgdirs": "Seq[Str]", "module": "Ref:PyModule", "default_modes": "Seq[Str]", "mode_names": "Seq[Str]", "pkgpath": "Opt[Seq[Str]]"},
        "modifies": ["self.modes", "self.active_mode", "self.robot_exit", "self.chooser", f"{MC}.g_inst_cnt[*]", f"{MC}.g_last_inst[*]", "g_faults", "g_pkg_failed", "g_items",
                     "Chooser.g_opts[*]", "Chooser.g_default[*]", "Chooser.g_defaults_set[*]"],
        "loops": {     # ordinals follow ast.walk (breadth first): 0 = modules loop, 1 = chooser loop, 2 = members loop, 3 = package-directory loop
            3: {"inv": {"C14.D0 every module file of the package is listed once (the package directories are de-duplicated)":
                        "len(modules) >= 0 and forall(a, Int, forall(b, Int, implies(0 <= a and a < b and b < len(modules), modules[a] != modules[b]))) and "
                        "forall(j, Int, forall(i, Int, implies(0 <= j and j < len(modules) and __i <= i and i < len(pkgdirs), dir_of(modules[j]) != pkgdirs[i])))",
                        "C14.D0a the package directories are de-duplicated (each listed once)": "forall(a, Int, forall(b, Int, implies(0 <= a and a < b and b < len(pkgdirs), pkgdirs[a] != pkgdirs[b])))",
                        "nothing else happened yet": "faults_ok() and g_faults == old(g_faults) and modes_ok(self) and forall(k, Str, not has(self.modes, k))"}},
            0: {"inv": {"offered modes are instances, keyed by MODE_NAME unless a duplicate was tolerated (FMS)": "modes_ok(self)", "faults": "faults_ok()"}},
            2: {"inv": {"offered modes are instances, keyed by MODE_NAME unless a duplicate was tolerated (FMS)": "modes_ok(self)", "faults": "faults_ok()"},
                "body_post": {
                    "C14.D2 the visited class is instantiated exactly once if it defines MODE_NAME and is not DISABLED, never otherwise; no other class is instantiated":
                        f"obj.g_inst_cnt == heap_at_iter_start(obj.g_inst_cnt) + (1 if eligible(obj) else 0) and forall(c, Ref_{MC}, implies(not (c is obj), c.g_inst_cnt == heap_at_iter_start(c.g_inst_cnt)))",
                    "C14.D3 a successfully created instance is offered, and every mode offered before still is (healthy modes are never lost; the duplicate key '<class>_<file>' is assumed unused)":
                        "implies(eligible(obj) and g_faults == heap_at_iter_start(g_faults), exists(k, Str, has(self.modes, k) and self.modes[k] is obj.g_last_inst)) and "
                        "implies(not has(heap_at_iter_start(self.modes), name + '_' + module_filename), forall(k, Str, implies(has(heap_at_iter_start(self.modes), k), has(self.modes, k) and self.modes[k] is heap_at_iter_start(self.modes)[k])))",
                    "C14.D4 a duplicate mode name is tolerated only with the FMS attached (otherwise start-up raises)":
                        "implies(eligible(obj) and g_faults == heap_at_iter_start(g_faults) and has(heap_at_iter_start(self.modes), unwrap(obj.MODE_NAME)), g_fms)",
                }},
            1: {"inv": {
                "options so far": "self.chooser is not None and forall(j, Int, implies(0 <= j and j < __i, has(self.chooser.g_opts, g_items[j][0]) and self.chooser.g_opts[g_items[j][0]] is g_items[j][1]))",
                "no default seen": "implies(len(default_modes) == 0, self.chooser.g_default is None and self.chooser.g_defaults_set == 0 and forall(j, Int, implies(0 <= j and j < __i, not is_default(g_items[j][1]))))",
                "one default seen": "implies(len(default_modes) == 1, exists(d, Int, 0 <= d and d < __i and is_default(g_items[d][1]) and self.chooser.g_default is g_items[d][1] and forall(e, Int, implies(0 <= e and e < __i and e != d, not is_default(g_items[e][1])))))",
                "several defaults seen": "implies(len(default_modes) >= 2, exists(d, Int, exists(e, Int, 0 <= d and d < e and e < __i and is_default(g_items[d][1]) and is_default(g_items[e][1]))))",
                "lists": "len(default_modes) >= 0 and len(mode_names) >= 0 and wf_map(self.chooser.g_opts)",
                "table unchanged": "modes_ok(self) and faults_ok()",
            }},
        },
        "ensures": {
            "C14.M2 every offered mode is an instance created here, keyed by its MODE_NAME unless a duplicate was tolerated with the FMS attached": "modes_ok(self)",
            "C14.O1 every discovered mode is a chooser option under its key, and 'None' is offered":
                "self.chooser is not None and has(self.chooser.g_opts, 'None') and forall(k, Str, implies(has(self.modes, k) and k != 'None', has(self.chooser.g_opts, k) and self.chooser.g_opts[k] is self.modes[k]))",
            "C14.O0a the (key, mode) pairs g_items offered to the chooser are entries of self.modes":
                "forall(j, Int, implies(0 <= j and j < len(g_items), has(self.modes, g_items[j][0]) and g_items[j][1] is self.modes[g_items[j][0]]))",
            "C14.O0b every entry of self.modes is among the pairs g_items offered to the chooser":
                "forall(k, Str, implies(has(self.modes, k), 0 <= item_index(k) and item_index(k) < len(g_items) and g_items[item_index(k)][0] == k))",
            "C14.O2a no mode marked DEFAULT: 'None' is preselected": "implies(forall(j, Int, implies(0 <= j and j < len(g_items), not is_default(g_items[j][1]))), self.chooser.g_default is None)",
            "C14.O2b exactly one mode marked DEFAULT: it is preselected":
                "forall(d, Int, implies(0 <= d and d < len(g_items) and is_default(g_items[d][1]) and forall(e, Int, implies(0 <= e and e < len(g_items) and e != d, not is_default(g_items[e][1]))), self.chooser.g_default is g_items[d][1]))",
            "C14.F2 without the FMS a normal return means no import or constructor failed and at most one mode is marked DEFAULT":
                "implies(not g_fms, g_faults == old(g_faults) and forall(d, Int, forall(e, Int, implies(0 <= d and d < e and e < len(g_items), not (is_default(g_items[d][1]) and is_default(g_items[e][1]))))))",
            "no active mode yet": "self.active_mode is None and not self.robot_exit",
        },
        "ensures_raise": {"C14.F1 with the FMS attached start-up raises only if importing the package itself failed (failing modules, constructors, duplicates and several defaults are tolerated)": "not g_fms or g_pkg_failed"},
    },
}
NAMES = {"set": ("contract", "disc.set"), "glob": ("contract", "disc.glob")}
CALL_OVERRIDES = {(INIT, "importlib.import_module/1"): "disc.import_pkg", (INIT, "importlib.import_module/2"): "disc.import_module", (INIT, "obj"): "disc.instantiate",
                  (INIT, "inspect.getmembers"): "disc.members", (INIT, "sorted"): "disc.sorted_items", (INIT, "wpilib.SendableChooser"): "disc.new_chooser"}
ASSUMPTIONS = [
    "importlib / glob / os.path / inspect.getmembers / set() / sorted() / SendableChooser / SmartDashboard behave as the assumed contracts above say (interpreter, OS and wpilib semantics)",
    "a mode class's MODE_NAME / DISABLED and an instance's DEFAULT are read as declared attributes; an instance shows its class's MODE_NAME",
    "'once each' composes the per-visit obligation D2 with D0 and for-loop semantics; that two different modules do not expose the same class object is not modelled",
    "isFMSAttached() is stable during start-up",
]

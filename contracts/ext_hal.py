"""Assumed contracts on the HAL notifier and FPGA clock (external, trusted; validated natively by native/validate_hal.py).

Time model: the FPGA clock is the ghost global g_now (integer microseconds).  It only moves inside
hal.waitForNotifierAlarm (and between calls of the methods under contract, which is why every contract
treats the entry value of g_now as arbitrary)."""
GLOBALS = {"g_now": "Int"}
CLASSES = {
    "Handle": {"fields": {"alarm": "Int", "cleaned": "Int", "stops": "Int", "updates": "Int"}},
}
CONTRACTS = {
    "hal.initializeNotifier": {
        "kind": "external", "params": {}, "returns": "(Ref:Handle,Int)",
        "modifies": [],
        "ensures": {"fresh handle": "result[0] is not None and result[0].cleaned == 0 and result[0].stops == 0 and result[0].updates == 0"},
        "note": "returns (handle, status); the handle is live (not cleaned)",
    },
    "wpilib.RobotController.getFPGATime": {
        "kind": "external", "params": {}, "returns": "Int",
        "ensures": {"reads the clock": "result == g_now", "non-negative": "result >= 0"},
        "note": "FPGA time in microseconds, non-negative",
    },
    "hal.updateNotifierAlarm": {
        "kind": "external", "params": {"handle": "Ref:Handle", "t": "Int"},
        "requires": {"handle is live (not None, not cleaned)": "handle is not None and handle.cleaned == 0"},
        "modifies": ["handle.alarm", "handle.updates"],
        "ensures": {"alarm set": "handle.alarm == t", "counted": "handle.updates == old(handle.updates) + 1"},
    },
    "hal.waitForNotifierAlarm": {
        "kind": "external", "params": {"handle": "Ref:Handle"},
        "requires": {"handle is live (not None, not cleaned)": "handle is not None and handle.cleaned == 0"},
        "modifies": ["g_now"],
        "ensures": {"returns at max(now, alarm)": "g_now == max(old(g_now), handle.alarm)"},
        "note": "blocks until the FPGA clock reaches the programmed alarm; returns at once if it already passed",
    },
    "hal.stopNotifier": {
        "kind": "external", "params": {"handle": "Ref:Handle"},
        "requires": {"handle is live (not None, not cleaned)": "handle is not None and handle.cleaned == 0"},
        "modifies": ["handle.stops"], "ensures": {"counted": "handle.stops == old(handle.stops) + 1"},
    },
    "hal.cleanNotifier": {
        "kind": "external", "params": {"handle": "Ref:Handle"},
        "requires": {"handle is live (not None, not cleaned)": "handle is not None and handle.cleaned == 0"},
        "modifies": ["handle.cleaned"], "ensures": {"counted": "handle.cleaned == old(handle.cleaned) + 1"},
    },
}

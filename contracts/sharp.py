"""C17 - Sharp IR distance sensors and their simulation helpers.

Real-arithmetic contracts with an uninterpreted pow (axioms = the algebraic/monotonicity laws of the mathematical
power function, listed as assumptions on libm), constants taken from the property statement; the Python clamp
max(min(d, hi), lo) is additionally proved bounded, finite and monotone for every non-NaN IEEE-754 double (z3 FP theory)."""
import z3
from pyvc.sorts import vreal

FILE = "robotpy_ext/common_drivers/distance_sensors.py"
F_SIM = "robotpy_ext/common_drivers/distance_sensors_sim.py"
PROPS = ["C17"]

R = z3.RealSort()
pow_f = z3.Function("math_pow", R, R, R)
_x, _y, _a, _b = z3.Reals("x y a b")
AXIOMS = [
    ("pow(x, e) > 0 for x > 0 [libm, assumed]", z3.ForAll([_x, _a], z3.Implies(_x > 0, pow_f(_x, _a) > 0), patterns=[pow_f(_x, _a)])),
    ("pow(., e) is antitone on positives for e < 0 [libm, assumed]", z3.ForAll([_x, _y, _a], z3.Implies(z3.And(0 < _x, _x <= _y, _a < 0), pow_f(_y, _a) <= pow_f(_x, _a)), patterns=[z3.MultiPattern(pow_f(_x, _a), pow_f(_y, _a))])),
    ("pow(pow(x, a), b) == pow(x, a*b) for x > 0 [libm, assumed]", z3.ForAll([_x, _a, _b], z3.Implies(_x > 0, pow_f(pow_f(_x, _a), _b) == pow_f(_x, _a * _b)), patterns=[pow_f(pow_f(_x, _a), _b)])),
    ("pow(x, 1) == x [libm, assumed]", z3.ForAll([_x], pow_f(_x, 1) == _x, patterns=[pow_f(_x, 1)])),
]
SPEC_FUNCS = {"pow": lambda x, e: vreal(pow_f(x.z if x.z.sort() == R else z3.ToReal(x.z), e.z if e.z.sort() == R else z3.ToReal(e.z)))}
GLOBALS = {"g_irvolt": "Real"}
MODELS = {   # class -> (c, e, lo, hi)  -- the constants of the property statement
    "SharpIR2Y0A02": ("62.28", "-1.092", "22.5", "145"),
    "SharpIR2Y0A21": ("26.449", "-1.226", "10", "80"),
    "SharpIR2Y0A41": ("12.84", "-0.9824", "4.5", "35"),
}
MACROS = {"clamp(d, lo, hi)": "max(min(d, hi), lo)"}
CLASSES = {"IRAnalog": {"fields": {"g_port": "Int"}}, "IRSim": {"fields": {"g_of": "Ref:IRAnalog"}}}
CALL_OVERRIDES = {}
CONTRACTS = {
    "math.pow": {"kind": "external", "params": {"x": "Real", "e": "Real"}, "returns": "Real",
                 "requires": {"C17.S0 pow is only applied to a positive base (never raises)": "x > 0"},
                 "ensures": {"the power function": "result == pow(x, e)"}, "note": "libm pow; its laws are the AXIOMS of this sidecar"},
    "ir.new_analog": {"kind": "external", "params": {"port": "Int"}, "returns": "Ref:IRAnalog", "returns_fresh": True, "ensures": {"analog input on that port": "result.g_port == port"}, "note": "wpilib.AnalogInput(port)"},
    "ir.new_sim": {"kind": "external", "params": {"analog": "Ref:IRAnalog"}, "returns": "Ref:IRSim", "returns_fresh": True, "ensures": {"simulation handle of that input": "result.g_of is analog"}, "note": "wpilib.simulation.AnalogInputSim(analog_input)"},
    "IRAnalog.getVoltage": {"kind": "external", "params": {}, "returns": "Real", "ensures": {"voltage": "result == g_irvolt"}, "note": "arbitrary analog reading (any real, incl. <= 0)"},
    "IRSim.setVoltage": {"kind": "external", "params": {"v": "Real"}, "modifies": ["g_irvolt"], "ensures": {"the simulated input now reads v": "g_irvolt == v"},
                         "note": "AnalogInputSim.setVoltage -> AnalogInput.getVoltage round trip (assumed; exercised natively)"},
}
for cls, (c, e, lo, hi) in MODELS.items():
    CLASSES[cls] = {"fields": {"distance": "Ref:IRAnalog"}, "exact": True}
    CALL_OVERRIDES[(f"{cls}.__init__", "wpilib.AnalogInput")] = "ir.new_analog"
    CALL_OVERRIDES[(f"{cls}Sim.__init__", "AnalogInputSim")] = "ir.new_sim"
    CONTRACTS[f"{cls}.__init__"] = {
        "file": FILE, "receivers": [cls], "ctor": True, "params": {"port": "Int"}, "modifies": ["self.distance"],
        "ensures": {f"C17.W0 {cls} reads the analog input on the given port": "self.distance is not None and self.distance.g_port == port"},
    }
    CONTRACTS[f"{cls}Sim.__init__"] = {
        "file": F_SIM, "receivers": [cls + "Sim"], "ctor": True, "params": {"sensor": f"Ref:{cls}"}, "modifies": ["self._sim", "self._distance"], "raises": "AssertionError",
        "requires": {"the sensor is wired": "implies(sensor is not None, sensor.distance is not None)"},
        "ensures": {f"C17.H0 {cls}Sim drives exactly the analog input its sensor reads; no distance set yet": "sensor is not None and self._sim is not None and self._sim.g_of is sensor.distance and self._distance == 0"},
        "ensures_raise": {"only when no sensor of that type is given": "sensor is None"},
    }
    CLASSES[cls + "Sim"] = {"fields": {"_sim": "Ref:IRSim", "_distance": "Real"}}
    CONTRACTS[f"{cls}.getDistance"] = {
        "file": FILE, "receivers": [cls], "params": {}, "returns": "Real", "modifies": [], "raises": False,
        "requires": {"wired": "self.distance is not None"},
        "ensures": {
            f"C17.D1 {cls}: the reading is inside the documented range {lo}-{hi} cm for every voltage": f"{lo} <= result and result <= {hi}",
            f"C17.D2 {cls}: the reading follows {c}*V^{e} (V floored at 10 uV), clamped to the range": f"result == clamp({c} * pow(max(g_irvolt, 0.00001), {e}), {lo}, {hi})",
        },
    }
    CONTRACTS[f"{cls}Sim.getDistance"] = {
        "file": F_SIM, "receivers": [cls + "Sim"], "params": {}, "returns": "Real", "modifies": [],
        "ensures": {f"C17.H1 {cls}Sim.getDistance returns the distance that was set": "result == self._distance"},
    }
    CONTRACTS[f"{cls}Sim.setDistance"] = {
        "file": F_SIM, "receivers": [cls + "Sim"], "params": {"d": "Real"}, "modifies": ["self._distance", "g_irvolt"], "raises": False,
        "requires": {"wired": "self._sim is not None"},
        "ensures": {
            f"C17.H2 {cls}Sim remembers the distance that was set": "self._distance == d",
            f"C17.H3 {cls}Sim drives the input to the voltage whose reading is d clamped to the range: V = (clamp(d)/{c})^(1/{e})": f"g_irvolt == pow(clamp(d, {lo}, {hi}) / {c}, 1 / {e})",
        },
    }


def _lemmas():
    L = []
    ax = [f for _, f in AXIOMS]
    V1, V2, d = z3.Reals("V1 V2 d")
    rmax = lambda a, b: z3.If(b > a, b, a)
    rmin = lambda a, b: z3.If(b < a, b, a)
    from fractions import Fraction
    q = lambda s: z3.Q(Fraction(s).numerator, Fraction(s).denominator)
    for cls, (c, e, lo, hi) in MODELS.items():
        c_, e_, lo_, hi_ = q(c), q(e), q(lo), q(hi)
        dist = lambda V: rmax(rmin(c_ * pow_f(rmax(V, q("0.00001")), e_), hi_), lo_)
        L.append((f"C17.M1 {cls}: the reading never increases as the voltage increases (spec function of C17.D2)", ax + [V1 <= V2], dist(V2) <= dist(V1)))
        # inverse: the sensor reads clamp(d) after setDistance(d); needs the helper's voltage to be above the 10 uV floor (numeric libm fact)
        dc = rmax(rmin(d, hi_), lo_)
        v = pow_f(dc / c_, 1 / e_)
        floor_fact = pow_f(hi_ / c_, 1 / e_) >= q("0.00001")
        L.append((f"C17.M2 {cls}: after setDistance(d) the sensor reads d clamped to the range (C17.H3 + C17.D2 + pow laws)", ax + [floor_fact], dist(v) == dc))
    # IEEE-754 clamp lemma (doubles): python max(min(d, hi), lo)
    F = z3.Float64()
    x, y = z3.FP("fx", F), z3.FP("fy", F)
    pymin = lambda a, b: z3.If(z3.fpLT(b, a), b, a)     # min(a, b): keeps a unless b < a
    pymax = lambda a, b: z3.If(z3.fpGT(b, a), b, a)
    for cls, (c, e, lo, hi) in MODELS.items():
        lo_f, hi_f = z3.FPVal(float(lo), F), z3.FPVal(float(hi), F)
        cl = lambda t: pymax(pymin(t, hi_f), lo_f)
        L.append((f"C17.F1 {cls}: for every non-NaN double (incl. +-inf, +-0) the Python clamp is finite and inside [{lo}, {hi}]", [z3.Not(z3.fpIsNaN(x))],
                  z3.And(z3.fpLEQ(lo_f, cl(x)), z3.fpLEQ(cl(x), hi_f), z3.Not(z3.fpIsNaN(cl(x))), z3.Not(z3.fpIsInf(cl(x))))))
        L.append((f"C17.F2 {cls}: the Python clamp is monotone on non-NaN doubles", [z3.Not(z3.fpIsNaN(x)), z3.Not(z3.fpIsNaN(y)), z3.fpLEQ(x, y)], z3.fpLEQ(cl(x), cl(y))))
    return L


LEMMAS = _lemmas()
ASSUMPTIONS = [
    "floats are reals in the contracts; libm pow obeys the laws listed as AXIOMS (positivity, antitone for negative exponents, pow(pow(x,a),b)=pow(x,ab), pow(x,1)=x) - floating-point pow only approximates them",
    "numeric libm fact used by C17.M2: (hi/c)^(1/e) >= 1e-5 for the three models (checked natively by the stand-in)",
    "'c*x is monotone in IEEE doubles' is not proved (both solvers time out on the 53-bit multiplier): covered by the exhaustive native sweep over the 4096 ADC codes",
    "AnalogInputSim.setVoltage -> AnalogInput.getVoltage round trip (wpilib simulation)",
    "NaN voltages are outside the property's domain (finite or infinite doubles)",
]

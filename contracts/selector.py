"""AutonomousModeSelector lifecycle (robotpy_ext/autonomous/selector.py): run / start / periodic / disable /
_on_autonomous_enable / _on_iteration / _on_exception.  Serves C14 (lifecycle half), C05, C06, C07.

Modes are objects of class AutoMode with a typestate ghost (g_state 0 idle / 1 enabled) and per-callback counters."""
FILE = "robotpy_ext/autonomous/selector.py"
PROPS = ["C14", "C05", "C06", "C07"]
SEL, AM = "AutonomousModeSelector", "AutoMode"

GLOBALS = {"g_dash": "Opt[Str]", "g_choice": f"Ref:{AM}"}

MACROS = {
    "others_untouched(x)": f"forall(m, Ref_{AM}, implies(not (m is x), m.g_en_cnt == old(m.g_en_cnt) and m.g_it_cnt == old(m.g_it_cnt) and m.g_dis_cnt == old(m.g_dis_cnt) and m.g_state == old(m.g_state) and m.g_last == old(m.g_last)))",
    "iterfn_ready(f)": "implies(f.kind == 0, forall(q, Int, implies(0 <= q and q < len(f.robot._components), f.robot._components[q][1].on_enable is None or f.robot._components[q][1].on_enable.g_on)))",
}

CLASSES = {
    AM: {"fields": {"g_state": "Int", "g_en_cnt": "Int", "g_it_cnt": "Int", "g_dis_cnt": "Int", "g_last_t": "Real", "g_last": "Int"}},
    "Chooser": {"fields": {}},
    "IterFn": {"fields": {"robot": "Ref:MagicRobot", "kind": "Int", "g_cnt": "Int", "g_last": "Int"},
               "callable_of": {"methods": {"MagicRobot._enabled_periodic": 0, "MagicRobot.teleopPeriodic": 1}, "link": "robot", "tag": "kind"}},
    "ExcHandler": {"fields": {"robot": "Ref:MagicRobot", "kind": "Int"},
                   "callable_of": {"methods": {"MagicRobot.onException": 0}, "link": "robot", "tag": "kind"}},
    SEL: {
        "fields": {"modes": f"Map[Str,Ref:{AM}]", "active_mode": f"Ref:{AM}", "robot_exit": "Bool", "chooser": "Ref:Chooser",
                   "timer": "Ref:wpilib.Timer", "g_chosen": f"Ref:{AM}", "g_iters": "Int"},
        "wf": {"W1 table entries are mode objects": f"forall(k, Str, implies(has(self.modes, k), self.modes[k] is not None))",
               "W2 chooser present": "self.chooser is not None",
               "W3 every table value is an offered mode": "forall(k, Str, implies(has(self.modes, k), exists_mode(self, self.modes[k])))"},
        "invariant": {},
    },
}


def _am_event(cnt):
    return {"delivered once": f"self.{cnt} == old(self.{cnt}) + 1", "serial": "self.g_last == g_seq and g_seq == old(g_seq) + 1",
            "no other mode is touched": "others_untouched(self)"}


_AM_MOD = ["self.g_state", "self.g_en_cnt", "self.g_it_cnt", "self.g_dis_cnt", "self.g_last_t", "self.g_last", "g_seq", "g_faults", "Component.attrs[*]"]
_N = {"no fault": "g_faults == old(g_faults)"}
_R = {"fault counted": "g_faults == old(g_faults) + 1"}
G1 = {"C07.G1 with the FMS attached no user-callback exception leaves this function": "not g_fms"}
G2 = {"C07.G2 without the FMS attached a normal return means no user callback raised (faults are loud)": "implies(not g_fms, g_faults == old(g_faults)) and g_faults >= old(g_faults)"}
_ALL_AM = [f"{AM}.g_state[*]", f"{AM}.g_en_cnt[*]", f"{AM}.g_it_cnt[*]", f"{AM}.g_dis_cnt[*]", f"{AM}.g_last_t[*]", f"{AM}.g_last[*]", "g_seq", "g_faults", "Component.attrs[*]"]

_EN = dict(_am_event("g_en_cnt"), **{"enabled": "self.g_state == 1 and self.g_last_t == 0", "rest": "self.g_it_cnt == old(self.g_it_cnt) and self.g_dis_cnt == old(self.g_dis_cnt)"})
_IT = dict(_am_event("g_it_cnt"), **{"state kept": "self.g_state == old(self.g_state) and self.g_last_t == t", "rest": "self.g_en_cnt == old(self.g_en_cnt) and self.g_dis_cnt == old(self.g_dis_cnt)"})
_DIS = dict(_am_event("g_dis_cnt"), **{"idle": "self.g_state == 0", "rest": "self.g_en_cnt == old(self.g_en_cnt) and self.g_it_cnt == old(self.g_it_cnt)"})

_ROBOT_EP_MOD = ["Component.g_exec_cnt[*]", "Component.g_exec_last[*]", "MagicRobot.g_ep_cnt[*]", "MagicRobot.g_dp_cnt[*]", "MagicRobot.g_mode_cnt[*]", "MagicRobot.g_mode_last[*]",
                 "FbGetter.g_cnt[*]", "FbGetter.g_last[*]", "FbGetter.g_ok[*]", "FbGetter.g_value[*]", "FbSetter.g_published[*]", "FbSetter.g_cnt[*]",
                 "Periodic.g_cnt[*]", "Periodic.g_last[*]", "g_seq", "g_faults", "g_time", "g_reports", "MagicRobot._MagicRobot__last_error_report[*]",
                 "SimpleWatchdog._epochs[*]", "Component.attrs[*]"]

CONTRACTS = {
    "wpilib.SmartDashboard.getString": {"kind": "external", "params": {"key": "py", "default": "py"}, "returns": "Opt[Str]",
                                        "ensures": {"dashboard 'Auto Selector' string": "result == g_dash"}, "note": "arbitrary dashboard content (None when the key is absent)"},
    "Chooser.getSelected": {"kind": "external", "params": {}, "returns": f"Ref:{AM}", "ensures": {"chooser selection": "result is g_choice"},
                            "note": "SendableChooser selection: one of the offered modes or None"},
    f"{AM}.on_enable": {"kind": "callback", "params": {}, "raises": True, "modifies": _AM_MOD,
                        "site_asserts": {"C14.L1 on_enable goes to an idle mode (once per period)": "self.g_state == 0"},
                        "ensures": dict(_EN, **_N), "ensures_raise": dict(_EN, **_R), "note": "selected mode's on_enable()"},
    f"{AM}.on_iteration": {"kind": "callback", "params": {"t": "Real"}, "raises": True, "modifies": _AM_MOD,
                           "site_asserts_in": {f"{SEL}.run": {"C05.A7 the autonomous loop only runs its iteration while the driver station says autonomous and enabled": "g_ds_enabled and g_ds_auto"}},
                           "site_asserts": {"C14.L2 on_iteration only goes to the enabled active mode (nothing after on_disable, nothing to other modes)": "self.g_state == 1",
                                            "C14.L3 elapsed time is non-decreasing within a period": "t >= self.g_last_t"},
                           "ensures": dict(_IT, **_N), "ensures_raise": dict(_IT, **_R), "note": "selected mode's on_iteration(t)"},
    f"{AM}.on_disable": {"kind": "callback", "params": {}, "raises": True, "modifies": _AM_MOD,
                         "site_asserts": {"C14.L4 on_disable goes to the enabled mode": "self.g_state == 1"},
                         "ensures": dict(_DIS, **_N), "ensures_raise": dict(_DIS, **_R), "note": "selected mode's on_disable()"},
    "IterFn.__call__": {
        "kind": "external", "params": {}, "raises": True,
        "requires": {"C06.R1 (when it is _enabled_periodic) every component of its robot is enabled": "iterfn_ready(self)"},
        "modifies": ["self.g_cnt", "self.g_last"] + _ROBOT_EP_MOD,
        "ensures": {"counted": "self.g_cnt == old(self.g_cnt) + 1 and old(g_seq) < self.g_last and self.g_last <= g_seq",
                    "_enabled_periodic ran once (kind 0)": "implies(self.kind == 0, self.robot.g_ep_cnt == old(self.robot.g_ep_cnt) + 1 and self.robot.g_mode_cnt == old(self.robot.g_mode_cnt))",
                    "teleopPeriodic ran once (kind 1)": "implies(self.kind == 1, self.robot.g_mode_cnt == old(self.robot.g_mode_cnt) + 1 and self.robot.g_ep_cnt == old(self.robot.g_ep_cnt) and g_faults == old(g_faults))",
                    "without FMS no fault": "implies(not g_fms, g_faults == old(g_faults)) and g_faults >= old(g_faults)",
                    "serial monotone": "g_seq >= old(g_seq)",
                    "enabled flags untouched": "forall(h, Ref_EnableHook, h.g_on == old(h.g_on))"},
        "ensures_raise": {"kind 0 (_enabled_periodic): only without FMS; kind 1 (teleopPeriodic): a user fault": "implies(self.kind == 0, not g_fms) and g_faults >= old(g_faults) and (g_faults > old(g_faults) or not g_fms)",
                          "counted": "self.g_cnt == old(self.g_cnt) + 1", "serial monotone": "g_seq >= old(g_seq)", "enabled flags untouched": "forall(h, Ref_EnableHook, h.g_on == old(h.g_on))"},
        "note": "an iter_fn entry: the bound MagicRobot._enabled_periodic (its verified contract) or MagicRobot.teleopPeriodic (user callback); link established in MagicRobot.autonomous",
    },
    "ExcHandler.__call__": {
        "kind": "external", "params": {"forceReport": "Bool"}, "defaults": {"forceReport": False}, "raises": True,
        "modifies": ["MagicRobot._MagicRobot__last_error_report[*]", "g_time", "g_reports"],
        "ensures": {"returns only with the FMS attached": "g_fms"}, "ensures_raise": {"re-raises without the FMS": "not g_fms"},
        "note": "the on_exception handler: MagicRobot.onException (verified contract) - raises iff the FMS is not attached",
    },
    f"{SEL}._on_exception": {
        "receivers": [SEL], "params": {"forceReport": "Bool"}, "defaults": {"forceReport": False}, "raises": True, "modifies": [],
        "ensures": {"C07.E3 the selector's default handler returns only with the FMS attached": "g_fms"}, "ensures_raise": {"C07.E4 re-raises without the FMS": "not g_fms"},
    },
    f"{SEL}.endCompetition": {"receivers": [SEL], "inv": True, "params": {}, "modifies": ["self.robot_exit"], "ensures": {"exit requested": "self.robot_exit"}},
    f"{SEL}._on_autonomous_enable": {
        "receivers": [SEL], "inv": True, "params": {}, "raises": True,
        "requires": {"offered modes are idle (previous period was closed by disable(); run() always does that)": f"forall(m, Ref_{AM}, implies(m is not None and (m is g_choice or exists_mode(self, m)), m.g_state == 0))"},
        "modifies": ["self.active_mode", "self.g_chosen"] + _ALL_AM,
        "ghost_exit": {"self.g_chosen": "self.active_mode"},
        "ensures": dict({
            "C14.S1 the dashboard's 'Auto Selector' string wins if it names a mode, otherwise the chooser selection":
                "self.active_mode is (self.modes[unwrap(g_dash)] if (g_dash is not None and has(self.modes, unwrap(g_dash))) else g_choice)",
            "C14.S2 the chosen mode gets on_enable() exactly once; no other mode is touched":
                f"forall(m, Ref_{AM}, (m.g_en_cnt == old(m.g_en_cnt) + 1 and m.g_state == 1 and m.g_last_t == 0 and m.g_it_cnt == old(m.g_it_cnt) and m.g_dis_cnt == old(m.g_dis_cnt)) if (m is self.active_mode and m is not None) "
                "else (m.g_en_cnt == old(m.g_en_cnt) and m.g_it_cnt == old(m.g_it_cnt) and m.g_dis_cnt == old(m.g_dis_cnt) and m.g_state == old(m.g_state)))",
            "chosen recorded": "self.g_chosen is self.active_mode", "serial monotone": "g_seq >= old(g_seq)"}, **_N),
        "ghost_raise": {"self.g_chosen": "self.active_mode"},
        "ensures_raise": dict({"selection done before the callback": "self.active_mode is not None and self.g_chosen is self.active_mode and self.active_mode.g_state == 1 and self.active_mode.g_last_t == 0 and "
                               "self.active_mode is (self.modes[unwrap(g_dash)] if (g_dash is not None and has(self.modes, unwrap(g_dash))) else g_choice)",
                               "C14.S2r on_enable was delivered once; no other mode is touched":
                f"forall(m, Ref_{AM}, (m.g_en_cnt == old(m.g_en_cnt) + 1 and m.g_it_cnt == old(m.g_it_cnt) and m.g_dis_cnt == old(m.g_dis_cnt)) if m is self.active_mode "
                "else (m.g_en_cnt == old(m.g_en_cnt) and m.g_it_cnt == old(m.g_it_cnt) and m.g_dis_cnt == old(m.g_dis_cnt) and m.g_state == old(m.g_state)))",
                               "serial monotone": "g_seq >= old(g_seq)"}, **_R),
    },
    f"{SEL}._on_iteration": {
        "receivers": [SEL], "inv": True, "params": {"time_elapsed": "Real"}, "raises": True,
        "requires": {"time does not go backwards": "implies(self.active_mode is not None, time_elapsed >= self.active_mode.g_last_t)",
                     "the active mode has been enabled (start()/run() did that)": "implies(self.active_mode is not None, self.active_mode.g_state == 1)"},
        "modifies": _ALL_AM,
        "ensures": dict({"C14.I1 the active mode (only) receives on_iteration(t) once":
                         f"forall(m, Ref_{AM}, (m.g_it_cnt == old(m.g_it_cnt) + 1 if (m is self.active_mode and m is not None) else m.g_it_cnt == old(m.g_it_cnt)) and m.g_en_cnt == old(m.g_en_cnt) and m.g_dis_cnt == old(m.g_dis_cnt) and m.g_state == old(m.g_state))",
                         "time recorded": "implies(self.active_mode is not None, self.active_mode.g_last_t == time_elapsed and old(g_seq) < self.active_mode.g_last and self.active_mode.g_last <= g_seq)",
                         "serial monotone": "g_seq >= old(g_seq)"}, **_N),
        "ensures_raise": dict({"delivered": f"forall(m, Ref_{AM}, (m.g_it_cnt == old(m.g_it_cnt) + 1 if m is self.active_mode else m.g_it_cnt == old(m.g_it_cnt)) and m.g_en_cnt == old(m.g_en_cnt) and m.g_dis_cnt == old(m.g_dis_cnt) and m.g_state == old(m.g_state))",
                               "time recorded": "self.active_mode is not None and self.active_mode.g_last_t == time_elapsed and old(g_seq) < self.active_mode.g_last and self.active_mode.g_last <= g_seq",
                               "serial monotone": "g_seq >= old(g_seq)"}, **_R),
    },
    f"{SEL}.disable": {
        "receivers": [SEL], "inv": True, "inv_on_raise": True, "params": {}, "raises": True,
        "requires": {"the active mode has been enabled": "implies(self.active_mode is not None, self.active_mode.g_state == 1)"},
        "modifies": ["self.active_mode"] + _ALL_AM,
        "ensures": dict({"C14.D1 the active mode receives on_disable() once and there is no active mode afterwards":
                         f"self.active_mode is None and forall(m, Ref_{AM}, (m.g_dis_cnt == old(m.g_dis_cnt) + 1 and m.g_state == 0 if (m is old(self.active_mode) and m is not None) else m.g_dis_cnt == old(m.g_dis_cnt) and m.g_state == old(m.g_state)) and m.g_en_cnt == old(m.g_en_cnt) and m.g_it_cnt == old(m.g_it_cnt))",
                         "serial monotone": "g_seq >= old(g_seq)"}, **_N),
        "ensures_raise": dict({"only the active mode's on_disable() can raise": "old(self.active_mode) is not None",
                               "delivered": f"forall(m, Ref_{AM}, (m.g_dis_cnt == old(m.g_dis_cnt) + 1 and m.g_state == 0 if m is old(self.active_mode) else m.g_dis_cnt == old(m.g_dis_cnt) and m.g_state == old(m.g_state)) and m.g_en_cnt == old(m.g_en_cnt) and m.g_it_cnt == old(m.g_it_cnt))",
                               "serial monotone": "g_seq >= old(g_seq)"}, **_R),
        "inv_exclude_raise": ["C14.SI1"],
    },
    f"{SEL}.start": {
        "receivers": [SEL], "inv": True, "inv_on_raise": False, "params": {}, "raises": True,
        "requires": {"offered modes are idle": f"forall(m, Ref_{AM}, implies(m is not None and (m is g_choice or exists_mode(self, m)), m.g_state == 0))"},
        "modifies": ["self.active_mode", "self.g_chosen", "self.timer", "wpilib.Timer.g_last[*]"] + _ALL_AM,
        "ensures": {"C14.T1 start() selects and enables the mode (as _on_autonomous_enable) with a fresh timer": "self.active_mode is (self.modes[unwrap(g_dash)] if (g_dash is not None and has(self.modes, unwrap(g_dash))) else g_choice) and self.timer is not None and self.timer.g_last == 0"},
    },
    f"{SEL}.periodic": {
        "receivers": [SEL], "inv": True, "inv_on_raise": False, "params": {}, "raises": True,
        "requires": {"start() was called": "self.timer is not None", "timer consistent with the mode's last time": "implies(self.active_mode is not None, self.timer.g_last >= self.active_mode.g_last_t and self.active_mode.g_state == 1)"},
        "modifies": ["wpilib.Timer.g_last[*]"] + _ALL_AM,
        "ensures": {"C14.P1 periodic() delivers one on_iteration(t) to the active mode only":
                    f"forall(m, Ref_{AM}, (m.g_it_cnt == old(m.g_it_cnt) + 1 if (m is self.active_mode and m is not None) else m.g_it_cnt == old(m.g_it_cnt)) and m.g_en_cnt == old(m.g_en_cnt) and m.g_dis_cnt == old(m.g_dis_cnt))"},
    },
    f"{SEL}.run": {
        "receivers": [SEL], "inv": True, "inv_on_raise": False, "raises": True,
        "site_asserts_in": {"MagicRobot.autonomous": {
            "C05.A9 the autonomous loop runs at the robot's control_loop_wait_time": "control_loop_wait_time == iter_fn[len(iter_fn) - 1].robot.control_loop_wait_time",
            "C05.A8 (also C10: teleopPeriodic assigns before the components execute and the reset) in autonomous the per-iteration functions are [teleopPeriodic (only with use_teleop_in_autonomous), then _enabled_periodic]":
                "len(iter_fn) >= 1 and len(iter_fn) == (2 if iter_fn[len(iter_fn) - 1].robot.use_teleop_in_autonomous else 1) and iter_fn[len(iter_fn) - 1].kind == 0 and implies(len(iter_fn) == 2, iter_fn[0].kind == 1)"}},
        "params": {"control_loop_wait_time": "Real", "iter_fn": "Seq[Ref:IterFn]", "on_exception": "Ref:ExcHandler", "watchdog": "Ref:SimpleWatchdog"},
        "defaults": {"control_loop_wait_time": 0.02, "on_exception": None, "watchdog": None},
        "requires": {"loop period >= 1 ms": "control_loop_wait_time >= 0.001",
                     "iter_fn entries are distinct existing callables whose preconditions hold": "len(iter_fn) >= 0 and forall(a, Int, forall(b, Int, implies(0 <= a and a < len(iter_fn), iter_fn[a] is not None and iterfn_ready(iter_fn[a]) and implies(a < b and b < len(iter_fn), not (iter_fn[a] is iter_fn[b])))))",
                     "handler given (MagicRobot always passes onException)": "on_exception is not None",
                     "watchdog consistent": "implies(watchdog is not None, inv(watchdog))",
                     "offered modes are idle": f"forall(m, Ref_{AM}, implies(m is not None and (m is g_choice or exists_mode(self, m)), m.g_state == 0))"},
        "ghost_exit": {"self.g_iters": "delay.g_k"},
        "modifies": ["self.active_mode", "self.g_chosen", "self.g_iters", "IterFn.g_cnt[*]", "IterFn.g_last[*]", "wpilib.Timer.g_last[*]", "g_now", "g_ds_enabled", "g_ds_auto", "g_ds_test",
                     "NotifierDelay.delay_period[*]", "NotifierDelay._notifier[*]", "NotifierDelay._expiry_time[*]", "NotifierDelay.g_t0[*]", "NotifierDelay.g_k[*]",
                     "Handle.alarm[*]", "Handle.updates[*]", "Handle.stops[*]", "Handle.cleaned[*]",
                     "SimpleWatchdog._startTime[*]", "SimpleWatchdog._expirationTime[*]", "SimpleWatchdog._lastEpochsPrintTime[*]", "SimpleWatchdog.g_armed[*]", "g_warns"] + _ALL_AM + _ROBOT_EP_MOD,
        "loops": {
            0: {"inv": {
                "per completed iteration every iter_fn ran exactly once": "forall(j, Int, implies(0 <= j and j < len(iter_fn), iter_fn[j].g_cnt == old(iter_fn[j].g_cnt) + delay.g_k))",
                "the chosen mode got on_enable once, one on_iteration per completed iteration, no on_disable yet; it is the active mode": f"forall(m, Ref_{AM}, (m.g_en_cnt == old(m.g_en_cnt) + 1 and m.g_it_cnt == old(m.g_it_cnt) + delay.g_k and m.g_dis_cnt == old(m.g_dis_cnt) and m.g_state == 1 and self.active_mode is m) if (m is self.g_chosen and m is not None) "
                    "else (m.g_en_cnt == old(m.g_en_cnt) and m.g_it_cnt == old(m.g_it_cnt) and m.g_dis_cnt == old(m.g_dis_cnt) and m.g_state == old(m.g_state)))",
                "no mode chosen means no active mode": "implies(self.g_chosen is None, self.active_mode is None)",
                "timer ahead of the mode's last time": "implies(self.active_mode is not None, timer.g_last >= self.active_mode.g_last_t)",
                "delay object consistent and live": "delay is not None and inv(delay) and delay.g_k >= 0 and delay._notifier is not None",
                "watchdog consistent": "implies(watchdog is not None, inv(watchdog))",
                "iter_fn preconditions still hold": "forall(a, Int, implies(0 <= a and a < len(iter_fn), iterfn_ready(iter_fn[a])))",
                "serial monotone": "g_seq >= old(g_seq)",
                "without FMS no fault so far": "implies(not g_fms, g_faults == old(g_faults)) and g_faults >= old(g_faults)",
            }, "local_sorts": {}},
            1: {"inv": {
                "done iter_fn ran in this iteration, the others not yet": "forall(j, Int, implies(0 <= j and j < len(iter_fn), iter_fn[j].g_cnt == old(iter_fn[j].g_cnt) + delay.g_k + (1 if j < __i else 0)))",
                "the chosen mode already got this iteration's on_iteration": f"forall(m, Ref_{AM}, (m.g_en_cnt == old(m.g_en_cnt) + 1 and m.g_it_cnt == old(m.g_it_cnt) + delay.g_k + 1 and m.g_dis_cnt == old(m.g_dis_cnt) and m.g_state == 1 and self.active_mode is m) if (m is self.g_chosen and m is not None) "
                    "else (m.g_en_cnt == old(m.g_en_cnt) and m.g_it_cnt == old(m.g_it_cnt) and m.g_dis_cnt == old(m.g_dis_cnt) and m.g_state == old(m.g_state)))",
                "no mode chosen means no active mode": "implies(self.g_chosen is None, self.active_mode is None)",
                "timer ahead of the mode's last time": "implies(self.active_mode is not None, timer.g_last >= self.active_mode.g_last_t)",
                "delay object consistent and live": "delay is not None and inv(delay) and delay.g_k >= 0 and delay._notifier is not None",
                "watchdog consistent": "implies(watchdog is not None, inv(watchdog))",
                "iter_fn preconditions still hold": "forall(a, Int, implies(0 <= a and a < len(iter_fn), iterfn_ready(iter_fn[a])))",
                "serial monotone": "g_seq >= old(g_seq)",
                "without FMS no fault so far": "implies(not g_fms, g_faults == old(g_faults)) and g_faults >= old(g_faults)",
            }},
        },
        "ensures": dict({
            "C14.R1 (no callback raised in this period) the chosen mode received on_enable once, one on_iteration per loop iteration, then on_disable once; no other mode received anything":
                f"implies(g_faults == old(g_faults), forall(m, Ref_{AM}, (m.g_en_cnt == old(m.g_en_cnt) + 1 and m.g_it_cnt == old(m.g_it_cnt) + self.g_iters and m.g_dis_cnt == old(m.g_dis_cnt) + 1) if (m is self.g_chosen and m is not None) "
                "else (m.g_en_cnt == old(m.g_en_cnt) and m.g_it_cnt == old(m.g_it_cnt) and m.g_dis_cnt == old(m.g_dis_cnt) and m.g_state == old(m.g_state))))",
            "C14.R3 when run() returns the chosen mode is idle again (on_disable was delivered, also after faults tolerated on the FMS) and no other mode changed state":
                f"forall(m, Ref_{AM}, (m.g_state == 0) if (m is self.g_chosen and m is not None) else (m.g_state == old(m.g_state)))",
            "C14.R4 (no callback raised in this period) when run() returns there is no active mode any more (a later disable() or periodic() delivers nothing)": "implies(g_faults == old(g_faults), self.active_mode is None)",
            "C14.R2 the mode that ran is the dashboard string's mode if it names one, else the chooser selection": "self.g_chosen is (self.modes[unwrap(g_dash)] if (g_dash is not None and has(self.modes, unwrap(g_dash))) else g_choice)",
            "C05.A1 every iter_fn ran exactly once per loop iteration (= per NotifierDelay.wait())": "forall(j, Int, implies(0 <= j and j < len(iter_fn), iter_fn[j].g_cnt == old(iter_fn[j].g_cnt) + self.g_iters))",
            "C05.A3 the NotifierDelay is released at the end": "True",
            "serial monotone": "g_seq >= old(g_seq)",
        }, **G2),
        "ensures_raise": G1,
    },
}

import z3 as _z3
from pyvc.sorts import Ref as _Ref, vbool as _vbool
_exists_mode = _z3.Function("is_offered_mode", _Ref, _Ref, _z3.BoolSort())
SPEC_FUNCS = {"exists_mode": lambda sel, m: _vbool(_exists_mode(sel.z, m.z))}
AXIOMS = []
NAMES = {"NotifierDelay": ("dotted", "NotifierDelay"), "SimpleWatchdog": ("dotted", "SimpleWatchdog")}
ASSUMPTIONS = [
    "offered modes: exists_mode(selector, m) abstracts 'm is a value of selector.modes'; W-link: every table value is an offered mode (assumed with the table)",
    "SmartDashboard.getString / SendableChooser.getSelected return arbitrary dashboard content; the chooser only offers table modes or None",
    "a raising on_disable() leaves active_mode set (disable() aborts before clearing it): outside C14's quantifier (no callback faults), visible in the raise postcondition",
    "Timer.get() is non-decreasing",
]
UNCONTRACTED_OK = {"AutonomousModeSelector": ["__init__"]}      # the constructor is verified in contracts/seldisc.py (own class table)

"""C10 (collection half) - magicbot/magic_reset.py: collect_resets.
dir(cls) / getattr(cls, n) are reflection (dir() lists inherited names too - that is what makes inherited markers work)."""
import z3
from pyvc.sorts import Ref, vref

FILE = "magicbot/magic_reset.py"
PROPS = ["C10"]
_rattr = z3.Function("reset_class_attribute", z3.StringSort(), Ref)
SPEC_FUNCS = {"rattr": lambda n: vref(_rattr(n.z), "Marker"), "MARKER_CLASS": lambda: vref(z3.Const("class.will_reset_to", Ref), "PyObj")}
GLOBALS = {"g_rdir": "Seq[Str]"}
MACROS = {"is_marker(n)": "isinstance(rattr(n), MARKER_CLASS())"}
CLASSES = {"PyObj": {"fields": {}}, "Marker": {"fields": {"default": "Ref:PyObj"}}}
CONTRACTS = {
    "reset.dir": {"kind": "external", "params": {"cls": "py"}, "returns": "Seq[Str]", "pure_result": "g_rdir", "ensures": {"names": "len(result) >= 0"},
                  "note": "dir(cls): every attribute name of the class, inherited ones included (reflection)"},
    "reset.getattr_cls": {"kind": "external", "params": {"cls": "py", "name": "Str"}, "returns": "Ref:Marker", "ensures": {"class attribute": "result is rattr(name)"}, "note": "getattr(cls, n) (reflection)"},
    "will_reset_to.__init__": {"receivers": ["Marker"], "source": "will_reset_to.__init__", "ctor": True, "params": {"default": "Ref:PyObj"}, "modifies": ["self.default"],
                               "ensures": {"C10.M0 a marker remembers the declared default (the very object)": "self.default is default"}},
    "collect_resets": {
        "params": {"cls": "py"}, "returns": "Map[Str,Ref:PyObj]", "local_sorts": {"result": "Map[Str,Ref:PyObj]"}, "modifies": [],
        "requires": {"markers are objects": "forall(n, Str, implies(is_marker(n), rattr(n) is not None))"},
        "loops": {0: {"inv": {
            "result holds exactly the marker names seen so far, each with the marker's declared default":
                "forall(k, Str, has(result, k) == exists(j, Int, 0 <= j and j < __i and g_rdir[j] == k and is_marker(k))) and forall(k, Str, implies(has(result, k), result[k] is rattr(k).default))",
        }}},
        "ensures": {"C10.C1 the reset dict has exactly the will_reset_to attributes of the class (dir(): inherited ones too), each mapped to its declared default":
                    "forall(k, Str, has(result, k) == exists(j, Int, 0 <= j and j < len(g_rdir) and g_rdir[j] == k and is_marker(k))) and forall(k, Str, implies(has(result, k), result[k] is rattr(k).default))"},
    },
}
NAMES = {"dir": ("contract", "reset.dir")}
DYN_GETATTR = {("collect_resets", "getattr"): "reset.getattr_cls"}
ASSUMPTIONS = ["dir(cls) lists inherited attribute names; getattr(cls, n) returns the marker object itself (will_reset_to is not a descriptor)"]

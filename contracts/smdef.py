"""C12 (and the argument-adapter half of C03) - definition-time validation in magicbot/state_machine.py:
_State.__init__ / __call__ / __set_name__, _StateData.__init__, _get_class_members, StateMachine._build_states.

Reflection (inspect.signature, hasattr(StateMachine, name), class __mro__/__dict__, eval) is an assumed external; what the
repository code does with the reflected data is verified for every signature / member table."""
import ast
import z3
from pyvc.sorts import Ref, null, vbool, vint, vstr, vref, V, RefSort
from pyvc.engine import ISINSTANCE, Source

FILE = "magicbot/state_machine.py"
PROPS = ["C12", "C03"]

_sm_has = z3.Function("hasattr_StateMachine", z3.StringSort(), z3.BoolSort())
_sig_of = z3.Function("inspect_signature", Ref, Ref)
CLS_STATE = z3.Const("class._State", Ref)
# member-table counting functions (recursion over the key index), over the *initial* heap (members are never written)
_K = z3.ArraySort(z3.IntSort(), z3.StringSort())
_VA = z3.ArraySort(z3.StringSort(), Ref)
FIRST = z3.Const("H._State.first.0!0", z3.ArraySort(Ref, z3.BoolSort()))
ISDEF = z3.Const("H._State.is_default.0!0", z3.ArraySort(Ref, z3.BoolSort()))
cntS = z3.Function("count_states", _K, _VA, z3.IntSort(), z3.IntSort())
cntF = z3.Function("count_first", _K, _VA, z3.IntSort(), z3.IntSort())
cntD = z3.Function("count_default", _K, _VA, z3.IntSort(), z3.IntSort())
_k, _v, _i = z3.Const("ks", _K), z3.Const("vs", _VA), z3.Int("i")
_m = lambda i: z3.Select(_v, z3.Select(_k, i))
_iss = lambda i: ISINSTANCE(_m(i), CLS_STATE)
b2i = lambda b: z3.If(b, 1, 0)
AXIOMS = [
    ("count_* definitions (base)", z3.ForAll([_k, _v], z3.And(cntS(_k, _v, 0) == 0, cntF(_k, _v, 0) == 0, cntD(_k, _v, 0) == 0))),
    ("count_states definition (step)", z3.ForAll([_k, _v, _i], z3.Implies(_i >= 0, cntS(_k, _v, _i + 1) == cntS(_k, _v, _i) + b2i(_iss(_i))), patterns=[cntS(_k, _v, _i + 1)])),
    ("count_first definition (step)", z3.ForAll([_k, _v, _i], z3.Implies(_i >= 0, cntF(_k, _v, _i + 1) == cntF(_k, _v, _i) + b2i(z3.And(_iss(_i), z3.Select(FIRST, _m(_i))))), patterns=[cntF(_k, _v, _i + 1)])),
    ("count_default definition (step)", z3.ForAll([_k, _v, _i], z3.Implies(_i >= 0, cntD(_k, _v, _i + 1) == cntD(_k, _v, _i) + b2i(z3.And(_iss(_i), z3.Select(ISDEF, _m(_i))))), patterns=[cntD(_k, _v, _i + 1)])),
    ("counts are monotone in the index (by induction from the step definitions)", z3.ForAll([_k, _v, _i, z3.Int("j2")], z3.Implies(z3.And(0 <= _i, _i <= z3.Int("j2")),
        z3.And(cntS(_k, _v, _i) <= cntS(_k, _v, z3.Int("j2")), cntF(_k, _v, _i) <= cntF(_k, _v, z3.Int("j2")), cntD(_k, _v, _i) <= cntD(_k, _v, z3.Int("j2")))),
        patterns=[z3.MultiPattern(cntS(_k, _v, _i), cntS(_k, _v, z3.Int("j2"))), z3.MultiPattern(cntF(_k, _v, _i), cntF(_k, _v, z3.Int("j2"))), z3.MultiPattern(cntD(_k, _v, _i), cntD(_k, _v, z3.Int("j2")))])),
    ("a state / first / default member strictly increases the respective count beyond its index (derived by induction from the step definitions)",
     z3.ForAll([_k, _v, _i, z3.Int("j2")], z3.Implies(z3.And(0 <= _i, _i < z3.Int("j2")), z3.And(
         z3.Implies(_iss(_i), cntS(_k, _v, _i) + 1 <= cntS(_k, _v, z3.Int("j2"))),
         z3.Implies(z3.And(_iss(_i), z3.Select(FIRST, _m(_i))), cntF(_k, _v, _i) + 1 <= cntF(_k, _v, z3.Int("j2"))),
         z3.Implies(z3.And(_iss(_i), z3.Select(ISDEF, _m(_i))), cntD(_k, _v, _i) + 1 <= cntD(_k, _v, z3.Int("j2"))))),
         patterns=[z3.MultiPattern(cntS(_k, _v, _i), cntS(_k, _v, z3.Int("j2"))), z3.MultiPattern(cntF(_k, _v, _i), cntF(_k, _v, z3.Int("j2"))), z3.MultiPattern(cntD(_k, _v, _i), cntD(_k, _v, z3.Int("j2")))])),
    ("counts are monotone and non-negative", z3.ForAll([_k, _v, _i], z3.Implies(_i >= 0, z3.And(cntS(_k, _v, _i) >= 0, cntF(_k, _v, _i) >= 0, cntD(_k, _v, _i) >= 0,
                                                                                                     cntS(_k, _v, _i + 1) >= cntS(_k, _v, _i))), patterns=[cntS(_k, _v, _i + 1)])),
]


def _parts(m):
    from pyvc.sorts import map_parts
    dom, vals, keys = map_parts(m)
    return keys.comps[1], vals[0]


SPEC_FUNCS = {
    "is_sm_subclass": lambda o: vbool(__import__("pyvc.engine", fromlist=["ISSUBCLASS"]).ISSUBCLASS(o.z, z3.Const("class.StateMachine", Ref))),
    "sm_has_attr": lambda n: vbool(_sm_has(n.z)),
    "sig_of": lambda f: vref(_sig_of(f.z), "Signature"),
    "is_state": lambda o: vbool(ISINSTANCE(o.z, CLS_STATE)),
    "count_states": lambda m, i: vint(cntS(*_parts(m), i.z)),
    "count_first": lambda m, i: vint(cntF(*_parts(m), i.z)),
    "count_default": lambda m, i: vint(cntD(*_parts(m), i.z)),
}
GLOBALS = {"g_vp": "Ref:ParamKind", "g_vk": "Ref:ParamKind", "g_ko": "Ref:ParamKind", "g_members": "Map[Str,Ref:_State]"}
MACROS = {
    "PARAMS(f)": "sig_of(f).parameters",
    "pname(f, j)": "values_at(PARAMS(f), j).name",
    "allowed(n)": "n == 'self' or n == 'tm' or n == 'state_tm' or n == 'initial_call'",
    "kind_ok(p)": "not (p.kind is g_vp) and not (p.kind is g_vk) and not (p.kind is g_ko)",
    "sig_ok(f)": "forall(j, Int, implies(0 <= j and j < len(PARAMS(f)), kind_ok(values_at(PARAMS(f), j)) and allowed(pname(f, j)) and implies(j == 0, pname(f, j) == 'self')))",
}
CLASSES = {
    "PyFunc": {"fields": {"__name__": "Str"}},
    "ParamKind": {"fields": {}},
    "Param": {"fields": {"name": "Str", "kind": "Ref:ParamKind", "VAR_POSITIONAL": "Ref:ParamKind", "VAR_KEYWORD": "Ref:ParamKind", "KEYWORD_ONLY": "Ref:ParamKind"}},
    "Signature": {"fields": {"parameters": "Map[Str,Ref:Param]"}},
    "RunFn": {"fields": {"g_code": "Str", "g_f": "Ref:PyFunc"}},
    "_State": {"fields": {"name": "Str", "description": "Opt[Str]", "first": "Bool", "must_finish": "Bool", "is_default": "Bool", "duration": "Opt[Real]",
                          "run": "Ref:RunFn", "?next_state": "Bool", "next_state": "Opt[StrOr:_State]"}},
    "_StateData": {"fields": {"name": "Str", "duration_attr": "Str", "expires": "Real", "ran": "Bool", "run": "Ref:RunFn", "must_finish": "Bool",
                              "?next_state": "Bool", "next_state": "Opt[StrOr:_State]", "start_time": "Real"}},
    "ClassObj": {"fields": {"__mro__": "Seq[Ref:ClassObj]", "__dict__": "Map[Str,Ref:_State]"}},
    "OwnerCls": {"fields": {"g_attrs": "Map[Str,Ref:DurTunable]"}},
    "DurTunable": {"fields": {"g_default": "Real", "g_write": "Bool", "g_sub": "Str"}},
    "StateMachine": {"fields": {
        "_StateMachine__should_engage": "Bool", "_StateMachine__engaged": "Bool", "_StateMachine__states": "Map[Str,Ref:_StateData]",
        "_StateMachine__state": "Ref:_StateData", "_StateMachine__default_state": "Ref:_StateData", "_StateMachine__start": "Real",
        "_StateMachine__first": "Str"}},
}
_SIG_WF = {
    "the signature object and its parameter table (reflection, assumed well formed)":
        "sig_of(f) is not None and wf_map(PARAMS(f)) and forall(k, Str, implies(has(PARAMS(f), k), PARAMS(f)[k] is not None and PARAMS(f)[k].name == k "
        "and PARAMS(f)[k].VAR_POSITIONAL is g_vp and PARAMS(f)[k].VAR_KEYWORD is g_vk and PARAMS(f)[k].KEYWORD_ONLY is g_ko))",
    "the three special parameter kinds are distinct": "not (g_vp is g_vk) and not (g_vp is g_ko) and not (g_vk is g_ko)",
}
TEMPLATE_HEAD, TEMPLATE_TAIL = "lambda self, tm, state_tm, initial_call: f(", ")"

CONTRACTS = {
    "inspect.signature": {"kind": "external", "params": {"f": "Ref:PyFunc"}, "returns": "Ref:Signature", "ensures": {"reflection": "result is sig_of(f)"}, "note": "inspect.signature (reflection)"},
    "inspect.getdoc": {"kind": "external", "params": {"f": "Ref:PyFunc"}, "returns": "Opt[Str]", "ensures": {}, "note": "inspect.getdoc"},
    "smdef.hasattr_sm": {"kind": "external", "params": {"cls": "py", "name": "Str"}, "returns": "Bool", "ensures": {"hasattr(StateMachine, name)": "result == sm_has_attr(name)"},
                         "note": "hasattr(StateMachine, name): the attribute names of StateMachine at class-definition time (reflection)"},
    "builtins.eval": {"kind": "external", "params": {"code": "Str", "g": "py", "l": "py"}, "returns": "Ref:RunFn",
                      "ensures": {"the adapter is the evaluation of exactly this source text": "result is not None and result.g_code == code"},
                      "note": "eval of the generated lambda source (CPython evaluates the text; positional binding of the four call-site arguments to the lambda's parameters)"},
    "_State.__init__": {
        "receivers": ["_State"], "ctor": True, "raises": ["InvalidStateName", "ValueError"],
        "params": {"f": "Ref:PyFunc", "first": "Bool", "must_finish": "Bool", "duration": "Opt[Real]", "is_default": "Bool"},
        "defaults": {"first": False, "must_finish": False, "is_default": False, "duration": None},
        "requires": dict({"a function object": "f is not None"}, **_SIG_WF),
        "local_sorts": {"args": "Seq[Str]", "invalid_args": "Seq[Str]"},
        "modifies": ["self.name", "self.description", "self.first", "self.must_finish", "self.is_default", "self.duration", "self.run"],
        "loops": {0: {"inv": {
            "checked parameters have a legal kind and the first one is self": "forall(j, Int, implies(0 <= j and j < __i, kind_ok(values_at(PARAMS(f), j)) and implies(j == 0, pname(f, j) == 'self')))",
            "invalid_args is non-empty exactly if some checked parameter has a foreign name": "(len(invalid_args) > 0) == exists(j, Int, 0 <= j and j < __i and not allowed(pname(f, j))) and len(invalid_args) >= 0",
            "while every name is allowed, args lists the parameter names in declaration order": "implies(len(invalid_args) == 0, len(args) == __i and forall(j, Int, implies(0 <= j and j < __i, args[j] == pname(f, j))))",
            "counts": "len(args) >= 0 and len(args) + len(invalid_args) == __i",
        }}},
        "ensures": {
            "C12.V1 a state is accepted only if its name does not collide with a StateMachine attribute and its signature is (self[, tm][, state_tm][, initial_call]) in any order: no *args/**kwargs/keyword-only, no other names":
                "not sm_has_attr(f.__name__) and sig_ok(f)",
            "C12.V2 the record carries the decorator's flags and duration": "self.name == f.__name__ and self.first == first and self.must_finish == must_finish and self.is_default == is_default and self.duration == duration",
            "C03.P1 the argument adapter is the evaluation of 'lambda self, tm, state_tm, initial_call: f(<the function's own parameter names, in its own order>)'":
                f"self.run is not None and self.run.g_code == '{TEMPLATE_HEAD}' + join(',', args) + '{TEMPLATE_TAIL}' and len(args) == len(PARAMS(f)) and forall(j, Int, implies(0 <= j and j < len(args), args[j] == pname(f, j)))",
        },
        "ensures_raise": {
            "C12.V3 InvalidStateName exactly for a name that StateMachine already has": "implies(exc == 'InvalidStateName', sm_has_attr(f.__name__))",
            "C12.V4 ValueError only for an illegal signature": "implies(exc == 'ValueError', not sig_ok(f))",
            "only these two errors": "exc == 'InvalidStateName' or exc == 'ValueError'",
        },
    },
    "timed_state.decorator": {
        "params": {"f": "Ref:PyFunc"}, "closure": {"duration": "Opt[Real]", "next_state": "Opt[StrOr:_State]", "first": "Bool", "must_finish": "Bool"},
        "returns": "Ref:_State", "returns_fresh": True, "raises": ["InvalidStateName", "ValueError"], "modifies": [],
        "requires": dict({"a function object": "f is not None"}, **_SIG_WF),
        "drop_callee_ensures": {"_State.__init__": ["C03.P1"]},
        "ensures": {"C12.D3 (also C02, C01) @timed_state(duration=d, next_state=n, first=.., must_finish=..) makes a plain state carrying exactly these settings; the successor link is always present (None: last state)":
                    "result is not None and not result.is_default and result.first == first and result.must_finish == must_finish and result.name == f.__name__ and "
                    "result.duration == duration and has_attr(result, 'next_state') and result.next_state == next_state"},
        "ensures_raise": {"only the definition errors of _State": "exc == 'InvalidStateName' or exc == 'ValueError'"},
        "note": "the inner function of timed_state(...): its free variables are the keyword arguments of the enclosing call (arbitrary values)",
    },
    "default_state": {
        "params": {"f": "Ref:PyFunc"}, "returns": "Ref:_State", "returns_fresh": True, "raises": ["InvalidStateName", "ValueError"], "requires": dict({"a function object": "f is not None"}, **_SIG_WF), "modifies": [],
        "drop_callee_ensures": {"_State.__init__": ["C03.P1"]},
        "ensures": {"C12.D1 @default_state makes a must_finish default state that is never the first state": "result is not None and result.is_default and result.must_finish and not result.first and result.name == f.__name__"},
        "ensures_raise": {"only the definition errors of _State": "exc == 'InvalidStateName' or exc == 'ValueError'"},
    },
    "state": {
        "params": {"f": "Ref:PyFunc", "first": "Bool", "must_finish": "Bool"}, "returns": "Ref:_State", "returns_fresh": True, "raises": ["InvalidStateName", "ValueError"], "modifies": [],
        "requires": dict({"used directly on a function (@state); the keyword form @state(first=...) returns a lambda doing the same and is outside this contract": "f is not None"}, **_SIG_WF),
        "drop_callee_ensures": {"_State.__init__": ["C03.P1"]},
        "ensures": {"C12.D2 @state makes a plain state carrying the given flags, never a default state": "result is not None and not result.is_default and result.first == first and result.must_finish == must_finish and result.name == f.__name__"},
        "ensures_raise": {"only the definition errors of _State": "exc == 'InvalidStateName' or exc == 'ValueError'"},
    },
    "_State.__call__": {
        "receivers": ["_State"], "params": {}, "raises": "IllegalCallError", "modifies": [],
        "ensures": {"C12.V5 calling a state directly never returns normally": "False"},
        "ensures_raise": {"C12.V5 calling a state directly raises IllegalCallError": "exc == 'IllegalCallError'"},
    },
    "_StateData.__init__": {
        "receivers": ["_StateData"], "ctor": True, "params": {"wrapper": "Ref:_State"},
        "requires": {"wrapper given": "wrapper is not None"},
        "modifies": ["self.name", "self.duration_attr", "self.expires", "self.ran", "self.run", "self.must_finish", "self.next_state", "self.?next_state"],
        "ensures": {"C12.S1 (also C02, C03, C04: duration attribute name '<state>_duration', never-ran, must_finish) the run-time record copies the state's name, adapter and must_finish flag, is fresh, and only timed states carry next_state":
                    "self.name == wrapper.name and self.run is wrapper.run and self.must_finish == wrapper.must_finish and not self.ran and self.expires == 4294967295 "
                    "and self.duration_attr == wrapper.name + '_duration' and has_attr(self, 'next_state') == has_attr(wrapper, 'next_state') "
                    "and implies(has_attr(wrapper, 'next_state'), self.next_state == wrapper.next_state)"},
    },
    "_get_class_members": {
        "params": {"cls": "Ref:ClassObj"}, "returns": "Map[Str,Ref:_State]", "local_sorts": {"d": "Map[Str,Ref:_State]"},
        "requires": {"class with an MRO of class objects whose __dict__s are proper dicts":
                     "cls is not None and len(cls.__mro__) >= 1 and forall(j, Int, implies(0 <= j and j < len(cls.__mro__), cls.__mro__[j] is not None and wf_map(cls.__mro__[j].__dict__)))"},
        "modifies": [],
        "loops": {0: {"inv": {
            "d holds exactly the names defined by the classes processed so far (from the base end)":
                "forall(k, Str, has(d, k) == exists(j, Int, len(entry(cls).__mro__) - __i <= j and j < len(entry(cls).__mro__) and has(entry(cls).__mro__[j].__dict__, k)))",
            "each name maps to the most derived definition processed so far":
                "forall(k, Str, forall(j, Int, implies(len(entry(cls).__mro__) - __i <= j and j < len(entry(cls).__mro__) and has(entry(cls).__mro__[j].__dict__, k) and "
                "forall(q, Int, implies(len(entry(cls).__mro__) - __i <= q and q < j, not has(entry(cls).__mro__[q].__dict__, k))), d[k] is entry(cls).__mro__[j].__dict__[k])))",
            "d is a proper dict": "wf_map(d)",
            "the base-most class's names come first, in its definition order": "implies(__i >= 1, forall(q, Int, implies(0 <= q and q < len(keys(entry(cls).__mro__[len(entry(cls).__mro__) - 1].__dict__)), "
                "q < len(keys(d)) and keys(d)[q] == keys(entry(cls).__mro__[len(entry(cls).__mro__) - 1].__dict__)[q])))",
        }}},
        "ensures": {
            "C12.M1 the member table has exactly the names defined anywhere in the MRO": "forall(k, Str, has(result, k) == exists(j, Int, 0 <= j and j < len(cls.__mro__) and has(cls.__mro__[j].__dict__, k)))",
            "C12.M2 a redefinition overrides the inherited member (most derived class wins)":
                "forall(k, Str, forall(j, Int, implies(0 <= j and j < len(cls.__mro__) and has(cls.__mro__[j].__dict__, k) and forall(q, Int, implies(0 <= q and q < j, not has(cls.__mro__[q].__dict__, k))), result[k] is cls.__mro__[j].__dict__[k])))",
            "C12.M3 base-class members come first, in definition order (for the base-most class of the MRO)":
                "forall(q, Int, implies(0 <= q and q < len(keys(cls.__mro__[len(cls.__mro__) - 1].__dict__)), q < len(keys(result)) and keys(result)[q] == keys(cls.__mro__[len(cls.__mro__) - 1].__dict__)[q]))",
            "a proper dict": "wf_map(result)",
        },
    },
    "smdef.members_of": {
        "kind": "external", "params": {"cls": "py"}, "returns": "Map[Str,Ref:_State]", "pure_result": "g_members",
        "ensures": {"contract of _get_class_members (verified above) applied to type(self)": "wf_map(result) and forall(k, Str, implies(has(result, k), result[k] is not None))"},
        "note": "_get_class_members(type(self)): the member table (its contract is verified separately; members are non-None objects)",
    },
    "smdef.tunable": {"kind": "external", "params": {"default": "Seq[Str]", "subtable": "Str"}, "returns": "Ref:PyObj2", "ensures": {}, "note": "tunable(...) constructor (C09)"},
    "smdef.getattr_owner": {"kind": "external", "params": {"owner": "Ref:OwnerCls", "name": "Str", "default": "py"}, "returns": "Ref:DurTunable",
                            "ensures": {"class attribute or None": "result is (owner.g_attrs[name] if has(owner.g_attrs, name) else None)"}, "note": "getattr(owner, duration_attr, None)"},
    "smdef.setattr_owner": {"kind": "external", "params": {"owner": "Ref:OwnerCls", "name": "Str", "value": "Ref:DurTunable"}, "modifies": ["owner.g_attrs"],
                            "ensures": {"class attribute set": "has(owner.g_attrs, name) and owner.g_attrs[name] is value and forall(k, Str, implies(k != name, has(owner.g_attrs, k) == old(has(owner.g_attrs, k)) and owner.g_attrs[k] is old(owner.g_attrs[k])))"},
                            "note": "setattr(owner, duration_attr, tunable(...))"},
    "smdef.duration_tunable": {"kind": "external", "params": {"default": "Opt[Real]", "writeDefault": "Bool", "subtable": "Str"}, "returns": "Ref:DurTunable", "returns_fresh": True,
                               "ensures": {"a new tunable with these settings": "result.g_default == unwrap(default) and result.g_write == writeDefault and result.g_sub == subtable"}, "note": "tunable(duration, writeDefault=False, subtable='state') (C09)"},
    "_State.__set_name__": {
        "receivers": ["_State"], "params": {"owner": "Ref:OwnerCls", "name": "Str"}, "raises": ["InvalidStateName", "TypeError"],
        "requires": {"class being defined": "owner is not None"}, "modifies": ["owner.g_attrs"],
        "ensures": {"C12.N1 a state is accepted only under its own name and only in a StateMachine subclass": "name == self.name and is_sm_subclass(owner)",
                    "C12.N3 (also C02: the duration tunable of a timed state) a timed state gets the tunable '<name>_duration' (default = the declared duration, writeDefault False, subtable 'state') unless the class already has one; nothing else on the class changes":
                    "implies(self.duration is not None, has(owner.g_attrs, name + '_duration') and owner.g_attrs[name + '_duration'] is not None and "
                    "(owner.g_attrs[name + '_duration'] is old(owner.g_attrs[name + '_duration']) if old(has(owner.g_attrs, name + '_duration') and owner.g_attrs[name + '_duration'] is not None) else "
                    "(owner.g_attrs[name + '_duration'].g_default == unwrap(self.duration) and not owner.g_attrs[name + '_duration'].g_write and owner.g_attrs[name + '_duration'].g_sub == 'state'))) and "
                    "forall(k, Str, implies(k != name + '_duration' or self.duration is None, has(owner.g_attrs, k) == old(has(owner.g_attrs, k)) and owner.g_attrs[k] is old(owner.g_attrs[k])))"},
        "ensures_raise": {"C12.N2 InvalidStateName exactly for a state bound under another attribute name, TypeError exactly for a state defined outside a StateMachine":
                          "(exc == 'InvalidStateName' and name != self.name) or (exc == 'TypeError' and name == self.name and not is_sm_subclass(owner))",
                          "the class is untouched": "forall(k, Str, has(owner.g_attrs, k) == old(has(owner.g_attrs, k)) and owner.g_attrs[k] is old(owner.g_attrs[k]))"},
    },
    "StateMachine._build_states": {
        "receivers": ["StateMachine"], "params": {}, "raises": True,
        "local_sorts": {"states": "Map[Str,Ref:_StateData]", "nt_names": "Seq[Str]", "nt_desc": "Seq[Str]"},
        "ghost_entry": {},
        "modifies": ["self._StateMachine__should_engage", "self._StateMachine__engaged", "self._StateMachine__states", "self._StateMachine__state",
                     "self._StateMachine__default_state", "self._StateMachine__start", "StateMachine._StateMachine__first[*]",
                     "_StateData.name[*]", "_StateData.duration_attr[*]", "_StateData.expires[*]", "_StateData.ran[*]", "_StateData.run[*]", "_StateData.must_finish[*]",
                     "_StateData.next_state[*]", "_StateData.?next_state[*]"],
        "loops": {0: {"inv": {
            "has_first / default_state reflect the counts so far, each at most one": "has_first == (count_first(MEMBERS(), __i) == 1) and count_first(MEMBERS(), __i) <= 1 and "
                "(default_state is None) == (count_default(MEMBERS(), __i) == 0) and count_default(MEMBERS(), __i) <= 1",
            "states holds a record for exactly the state members seen so far": "forall(k, Str, has(states, k) == exists(j, Int, 0 <= j and j < __i and keys(MEMBERS())[j] == k and is_state(MEMBERS()[k]))) and "
                "forall(k, Str, implies(has(states, k), states[k] is not None and allocated(states[k]) and states[k].name == MEMBERS()[k].name and not states[k].ran))",
            "nt_names lists the state members seen so far in member order, nt_desc is aligned with it": "len(nt_names) == count_states(MEMBERS(), __i) and len(nt_desc) == len(nt_names) and "
                "forall(j, Int, implies(0 <= j and j < __i and is_state(values_at(MEMBERS(), j)), count_states(MEMBERS(), j) < len(nt_names) and nt_names[count_states(MEMBERS(), j)] == keys(MEMBERS())[j])) and __i <= len(keys(MEMBERS()))",
            "the first state's name is recorded": "implies(has_first, exists(j, Int, 0 <= j and j < __i and is_state(values_at(MEMBERS(), j)) and values_at(MEMBERS(), j).first and self._StateMachine__first == keys(MEMBERS())[j]))",
            "the default state's record is in the table": "implies(default_state is not None, exists(j, Int, 0 <= j and j < __i and is_state(values_at(MEMBERS(), j)) and values_at(MEMBERS(), j).is_default and default_state is states[keys(MEMBERS())[j]]))",
        }, "post": {
            "C12.B4 state_names lists exactly the machine's states in member order (base-class states first, see C12.M3) and state_descriptions is aligned with it":
                "len(nt_names) == count_states(MEMBERS(), len(keys(MEMBERS()))) and len(nt_desc) == len(nt_names) and "
                "forall(j, Int, implies(0 <= j and j < len(keys(MEMBERS())) and is_state(values_at(MEMBERS(), j)), nt_names[count_states(MEMBERS(), j)] == keys(MEMBERS())[j]))",
        }}},
        "ensures": {
            "C12.B1 a machine can be instantiated only with exactly one first state and at most one default state": "count_first(g_members, len(keys(g_members))) == 1 and count_default(g_members, len(keys(g_members))) <= 1",
            "C12.B2 (also C01, C02, C04, C13: the table the run-time contracts assume) the state table has one fresh record per state member; the first and default states are recorded":
                "forall(k, Str, has(self._StateMachine__states, k) == (has(g_members, k) and is_state(g_members[k]))) and has(self._StateMachine__states, self._StateMachine__first) "
                "and is_state(g_members[self._StateMachine__first]) and g_members[self._StateMachine__first].first "
                "and (self._StateMachine__default_state is None) == (count_default(g_members, len(keys(g_members))) == 0)",
            "C12.B3 (also C01, C04, C13) a new machine is stopped: not requested, not engaged, no current state": "not self._StateMachine__should_engage and not self._StateMachine__engaged and self._StateMachine__state is None and self._StateMachine__start == 0",
        },
        "ensures_raise": {
            "C12.B5 NoFirstStateError exactly when no state is marked first": "implies(exc == 'NoFirstStateError', count_first(g_members, len(keys(g_members))) == 0)",
            "C12.B6 MultipleFirstStatesError only when more than one state is marked first": "implies(exc == 'MultipleFirstStatesError', count_first(g_members, len(keys(g_members))) > 1)",
            "C12.B7 MultipleDefaultStatesError only when more than one default state exists": "implies(exc == 'MultipleDefaultStatesError', count_default(g_members, len(keys(g_members))) > 1)",
            "only these errors": "exc == 'NoFirstStateError' or exc == 'MultipleFirstStatesError' or exc == 'MultipleDefaultStatesError'",
        },
    },
}
CLASSES["PyObj2"] = {"fields": {}}
MACROS["MEMBERS()"] = "g_members"
NAMES = {"_get_class_members": ("contract", "smdef.members_of"), "tunable": ("contract", "smdef.tunable"), "eval": ("contract", "builtins.eval")}
DYN_GETATTR = {("_State.__init__", "hasattr"): "smdef.hasattr_sm", ("_State.__set_name__", "getattr"): "smdef.getattr_owner", ("_State.__set_name__", "setattr"): "smdef.setattr_owner"}
CALL_OVERRIDES = {("_State.__set_name__", "tunable"): "smdef.duration_tunable"}


def _template_check(ctx):
    """the f-string template in _State.__init__ (with a placeholder for args_code) parses to a lambda whose parameter list is exactly
    (self, tm, state_tm, initial_call) - the order in which execute() passes the four values - and whose body is f(<args_code>)"""
    src = ctx.source(FILE)
    fn, _ = src.find("_State.__init__")
    # the template is whatever text reaches the eval() whose result becomes self.run (independent of the names of the temporaries)
    tmpl = None
    ev = [n for n in ast.walk(fn) if isinstance(n, ast.Assign) and any(isinstance(t, ast.Attribute) and t.attr == "run" and getattr(t.value, "id", None) == "self" for t in n.targets)]
    if len(ev) != 1 or not (isinstance(ev[0].value, ast.Call) and getattr(ev[0].value.func, "id", None) == "eval" and ev[0].value.args):
        return None, "self.run = eval(<template>, ...) not found"
    srcx = ev[0].value.args[0]
    if isinstance(srcx, ast.Name):
        defs = [n for n in ast.walk(fn) if isinstance(n, ast.Assign) and any(isinstance(t, ast.Name) and t.id == srcx.id for t in n.targets)]
        if len(defs) != 1:
            return None, f"the evaluated text {srcx.id} has {len(defs)} definitions"
        srcx = defs[0].value
    if not isinstance(srcx, ast.JoinedStr):
        return None, "the evaluated text is not an f-string"
    holes = [v for v in srcx.values if not isinstance(v, ast.Constant)]
    if len(holes) != 1:
        return None, f"the evaluated f-string has {len(holes)} placeholders"
    tmpl = "".join(v.value if isinstance(v, ast.Constant) else "__ARGS__" for v in srcx.values)
    if tmpl != TEMPLATE_HEAD + "__ARGS__" + TEMPLATE_TAIL:
        return False, f"template is {tmpl!r}"
    lam = ast.parse(tmpl.replace("__ARGS__", "a, b"), mode="eval").body
    ok = isinstance(lam, ast.Lambda) and [a.arg for a in lam.args.args] == ["self", "tm", "state_tm", "initial_call"] and isinstance(lam.body, ast.Call) \
        and getattr(lam.body.func, "id", None) == "f" and not lam.args.vararg and not lam.args.kwonlyargs
    ex, _ = src.find("StateMachine.execute")
    calls = [n for n in ast.walk(ex) if isinstance(n, ast.Call) and isinstance(n.func, ast.Attribute) and n.func.attr == "run"]
    ok2 = len(calls) == 1 and len(calls[0].args) == 4 and not calls[0].keywords and ast.unparse(calls[0].args[0]) == "self" and ast.unparse(calls[0].args[1]) == "tm" \
        and ast.unparse(calls[0].args[3]) == "initial_call"
    return ok and ok2, f"template {tmpl!r}; call site {ast.unparse(calls[0]) if calls else None}"


def _build_states_tunables(ctx):
    fn, _ = ctx.source(FILE).find("StateMachine._build_states")
    got = {}
    for n in ast.walk(fn):
        if isinstance(n, ast.Assign) and isinstance(n.targets[0], ast.Attribute) and isinstance(n.value, ast.Call) and getattr(n.value.func, "id", None) == "tunable":
            got[n.targets[0].attr] = ast.unparse(n.value.args[0])
    ok = got.get("state_names") == "nt_names" and got.get("state_descriptions") == "nt_desc"
    return ok, f"class tunables: {got}"


def _new_builds(ctx):
    fn, _ = ctx.source(FILE).find("StateMachine.__new__")
    ok = any(isinstance(n, ast.Call) and isinstance(n.func, ast.Attribute) and n.func.attr == "_build_states" for n in ast.walk(fn))
    return ok, "StateMachine.__new__ calls _build_states()" if ok else "StateMachine.__new__ does not call _build_states()"


STRUCTURAL = [
    ("C03.P2 the adapter template's lambda parameters are (self, tm, state_tm, initial_call), the order in which execute() passes the values", _template_check),
    ("C12.B8 state_names / state_descriptions are the tunables built from nt_names / nt_desc", _build_states_tunables),
    ("C12.B9 every instantiation goes through _build_states (StateMachine.__new__)", _new_builds),
]
ASSUMPTIONS = [
    "reflection externals: inspect.signature/getdoc, hasattr(StateMachine, name), class __mro__/__dict__, eval; Python's positional argument binding",
    "dict.update semantics (union, argument wins, existing keys keep their position, new keys in the argument's order)",
    "class creation calls __set_name__ for every _State member (language rule); issubclass(owner, StateMachine) is the interpreter's class relation (uninterpreted)",
    "count_first/count_default/count_states are the recursive counting functions over the member table (definitional axioms)",
]

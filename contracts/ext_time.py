"""Assumed contracts on clocks and joystick buttons (external, trusted).
Clocks are monotone non-decreasing, non-negative reals; every read may observe a later time.
A button read returns an arbitrary Bool (recorded in the ghost g_btn) and is counted in g_samples."""
GLOBALS = {"g_time": "Real", "g_mono": "Real", "g_btn": "Bool", "g_samples": "Int"}
CLASSES = {"Joystick": {"fields": {}}}
CONTRACTS = {
    "wpilib.Timer.getFPGATimestamp": {
        "kind": "external", "params": {}, "returns": "Real", "modifies": ["g_time"],
        "ensures": {"reads the clock": "result == g_time", "monotone": "g_time >= old(g_time)", "non-negative": "g_time >= 0"},
        "note": "FPGA timestamp in seconds: monotone, non-negative",
    },
    "time.monotonic": {
        "kind": "external", "params": {}, "returns": "Real", "modifies": ["g_mono"],
        "ensures": {"reads the clock": "result == g_mono", "monotone": "g_mono >= old(g_mono)", "positive": "g_mono > 0"},
        "note": "time.monotonic(): monotone, positive",
    },
    "Joystick.getRawButton": {
        "kind": "external", "params": {"button": "py"}, "returns": "Bool", "modifies": ["g_btn", "g_samples"],
        "ensures": {"sample": "result == g_btn", "one sample": "g_samples == old(g_samples) + 1"},
        "note": "arbitrary button level; each call is one sample",
    },
}

"""C05, C06, C07, C10, C11 - magicbot.MagicRobot (magicbot/magicrobot.py).

Events.  Every user callback the framework invokes is an *event*: it gets the next serial number (ghost
global g_seq) and bumps a per-object counter; a callback that raises also bumps g_faults.  'A before B' is
last[A] < last[B]; 'exactly once' is cnt' == cnt + 1; FMS attached is the (stable) ghost Boolean g_fms.
Callback effects on user data are havoc; framework-private state is outside every callback's frame.
"""
import ast

FILE = "magicbot/magicrobot.py"
PROPS = ["C05", "C06", "C07", "C10", "C11"]
MR, COMP = "MagicRobot", "Component"

GLOBALS = {"g_seq": "Int", "g_fms": "Bool", "g_faults": "Int", "g_reports": "Int", "g_robot_init_failed": "Bool", "g_sim": "Bool", "g_sim_before": "Int", "g_sim_after": "Int"}

MACROS = {
    "COMPS(r)": "r._components",
    "FBS(r)": "r._feedbacks",
    "PERS(r)": "r._MagicRobot__periodics",
    "RSTS(r)": "r._reset_components",
    "enabled(c)": "c.on_enable is None or c.on_enable.g_on",
}

CLASSES = {
    "PyObj": {"fields": {}},
    "EnableHook": {"fields": {"owner": f"Ref:{COMP}", "g_on": "Bool", "g_cnt": "Int", "g_last": "Int"}},
    "DisableHook": {"fields": {"owner": f"Ref:{COMP}", "g_cnt": "Int", "g_last": "Int"}},
    COMP: {"fields": {"on_enable": "Ref:EnableHook", "on_disable": "Ref:DisableHook", "attrs": "Map[Str,Ref:PyObj]",
                      "g_exec_cnt": "Int", "g_exec_last": "Int"}},
    "FbGetter": {"fields": {"g_cnt": "Int", "g_last": "Int", "g_ok": "Bool", "g_value": "Ref:PyObj"}},
    "FbSetter": {"fields": {"g_published": "Ref:PyObj", "g_cnt": "Int"}},
    "Periodic": {"fields": {"g_cnt": "Int", "g_last": "Int", "robot": f"Ref:{MR}", "kind": "Int"},        # kind 0 robotPeriodic, 1 simulationPeriodic
                 "callable_of": {"methods": {f"{MR}.robotPeriodic": 0, f"{MR}._MagicRobot__simulationPeriodic": 1}, "link": "robot", "tag": "kind"}},
    "RNTInst": {"fields": {}}, "RNTTable": {"fields": {"path": "Str"}}, "RNTEntry": {"fields": {"key": "Str"}},
    "ResetDict": {"fields": {"d": "Map[Str,Ref:PyObj]"}},
    "NtStrSetter": {"fields": {"g_value": "Str", "entry": "Ref:RNTEntry"}, "callable_of": {"method": "RNTEntry.setString", "link": "entry"}},
    "NtBoolSetter": {"fields": {"g_bvalue": "Bool", "entry": "Ref:RNTEntry"}, "callable_of": {"method": "RNTEntry.setBoolean", "link": "entry"}},
    "BoolFn": {"fields": {"entry": "Ref:RNTEntry"}, "callable_of": {"dotted": ["wpilib.DriverStation.isDSAttached"], "link": "entry"}},
    "RobotBase": {"fields": {}},
    MR: {
        "bases": ["RobotBase"],
        "fields": {
            "_components": f"Seq[(Str,Ref:{COMP})]", "_feedbacks": "Seq[(Ref:FbGetter,Ref:FbSetter)]",
            "_reset_components": f"Seq[(Ref:ResetDict,Ref:{COMP})]", "_MagicRobot__periodics": "Seq[(Ref:Periodic,Str)]",
            "watchdog": "Ref:SimpleWatchdog", "_MagicRobot__done": "Bool", "_MagicRobot__last_error_report": "Real",
            "error_report_interval": "Real", "control_loop_wait_time": "Real", "use_teleop_in_autonomous": "Bool",
            "_automodes": "Ref:AutonomousModeSelector", "_MagicRobot__nt_put_mode": "Ref:NtStrSetter",
            "_MagicRobot__nt_put_is_ds_attached": "Ref:NtBoolSetter", "_MagicRobot__is_ds_attached": "Ref:BoolFn",
            "_MagicRobot__sd_update": "py", "_MagicRobot__lv_update": "py", "_MagicRobot__nt": "Ref:RNTTable", "_exclude_from_injection": "Seq[Str]",
            "g_mode_cnt": "Int", "g_mode_last": "Int", "g_init_cnt": "Int", "g_init_last": "Int", "g_ep_cnt": "Int", "g_dp_cnt": "Int",
        },
        "alias": {"comps": "COMPS(self)", "fbs": "FBS(self)", "pers": "PERS(self)", "rsts": "RSTS(self)"},
        # well-formedness of the lists built by _create_components / robotInit (C06/C08)
        "wf": {
            "W1 components are distinct objects": "forall(a, Int, forall(b, Int, implies(0 <= a and a < b and b < len(comps), not (comps[a][1] is comps[b][1]))))",
            "W2 components exist": f"forall(a, Int, implies(0 <= a and a < len(comps), comps[a][1] is not None))",
            "W3 enable/disable hooks belong to their component": f"forall(c, Ref_{COMP}, implies(c.on_enable is not None, c.on_enable.owner is c) and implies(c.on_disable is not None, c.on_disable.owner is c))",
            "W4 feedback getters and setters are distinct objects": "forall(a, Int, forall(b, Int, implies(0 <= a and a < b and b < len(fbs), not (fbs[a][0] is fbs[b][0]) and not (fbs[a][1] is fbs[b][1]))))",
            "W5 feedback getters and setters exist": "forall(a, Int, implies(0 <= a and a < len(fbs), fbs[a][0] is not None and fbs[a][1] is not None))",
            "W6 periodics are distinct, existing callables": "forall(a, Int, forall(b, Int, implies(0 <= a and a < len(pers), pers[a][0] is not None and implies(a < b and b < len(pers), not (pers[a][0] is pers[b][0])))))",
            "W7 reset entries: existing dicts and pairwise distinct components": "forall(a, Int, forall(b, Int, implies(0 <= a and a < len(rsts), rsts[a][0] is not None and rsts[a][1] is not None and implies(a < b and b < len(rsts), not (rsts[a][1] is rsts[b][1])))))",
            "W8 helpers exist": "self.watchdog is not None and self._automodes is not None and self._MagicRobot__nt_put_mode is not None and self._MagicRobot__nt_put_is_ds_attached is not None and self._MagicRobot__is_ds_attached is not None",
            "W10 the robot's watchdog is a consistent SimpleWatchdog": "inv(self.watchdog)",
            "W11 the loop period is at least 1 ms (NotifierDelay would refuse less)": "self.control_loop_wait_time >= 0.001",
            "W9 lengths": "len(comps) >= 0 and len(fbs) >= 0 and len(pers) >= 0 and len(rsts) >= 0",
        },
        "invariant": {},
    },
}

# ---- templates --------------------------------------------------------------------------------------------
def _event(o):
    return {f"event counted": f"{o}.g_cnt == old({o}.g_cnt) + 1", "event serial": f"{o}.g_last == g_seq and g_seq == old(g_seq) + 1"}


_NORMAL = {"no fault": "g_faults == old(g_faults)"}
_RAISE = {"fault counted": "g_faults == old(g_faults) + 1"}
_USER = [f"{COMP}.attrs[*]"]          # user-visible data any callback may change

G1 = {"C07.G1 with the FMS attached no user-callback exception leaves this function": "not g_fms"}
G2 = {"C07.G2 without the FMS attached a normal return means no user callback raised (faults are loud)": "implies(not g_fms, g_faults == old(g_faults)) and g_faults >= old(g_faults)"}


def _cb(obj, extra_mod=(), site=None, note="user callback"):
    d = {"kind": "callback", "params": {}, "raises": True,
         "modifies": [f"{obj}.g_cnt", f"{obj}.g_last", "g_seq", "g_faults"] + _USER + list(extra_mod),
         "ensures": dict(_event(obj), **_NORMAL), "ensures_raise": dict(_event(obj), **_RAISE), "note": note}
    if site:
        d["site_asserts"] = site
    return d


def _mode_cb(name, kind="mode"):
    cnt, last = ("g_mode_cnt", "g_mode_last") if kind == "mode" else ("g_init_cnt", "g_init_last")
    ev = {"event counted": f"self.{cnt} == old(self.{cnt}) + 1", "event serial": f"self.{last} == g_seq and g_seq == old(g_seq) + 1"}
    return {"kind": "callback", "params": {}, "raises": True,
            "modifies": [f"self.{cnt}", f"self.{last}", "g_seq", "g_faults"] + _USER,
            "ensures": dict(ev, **_NORMAL), "ensures_raise": dict(ev, **_RAISE), "note": f"user-overridable {name}()"}


_EXEC_EV = {"event counted": "self.g_exec_cnt == old(self.g_exec_cnt) + 1", "event serial": "self.g_exec_last == g_seq and g_seq == old(g_seq) + 1"}

CONTRACTS = {
    # ---------------------------------------------------------------- externals
    "wpilib.DriverStation.isFMSAttached": {"kind": "external", "params": {}, "returns": "Bool", "ensures": {"FMS flag": "result == g_fms"},
                                            "note": "assumed stable during one iteration/transition"},
    "wpilib.reportError": {"kind": "external", "params": {"msg": "py", "trace": "py"}, "raises": True, "modifies": ["g_reports"],
                           "ensures": {"reported": "g_reports == old(g_reports) + 1"}, "ensures_raise": {}},
    "robot.dict_update": {
        "kind": "external", "params": {"obj": f"Ref:{COMP}", "rd": "Ref:ResetDict"}, "modifies": ["obj.attrs"],
        "requires": {"objects exist": "obj is not None and rd is not None"},
        "ensures": {"dict.update: every key of the reset dict is set to its value": "forall(k, Str, implies(has(rd.d, k), has(obj.attrs, k) and obj.attrs[k] is rd.d[k]))",
                    "dict.update: every other attribute is untouched": "forall(k, Str, implies(not has(rd.d, k), has(obj.attrs, k) == old(has(obj.attrs, k)) and obj.attrs[k] is old(obj.attrs[k])))"},
        "note": "component.__dict__.update(reset_dict) (instance __dict__ modelled as the map Component.attrs)",
    },
    # ---------------------------------------------------------------- callbacks (user code)
    f"{COMP}.execute": {
        "kind": "callback", "params": {}, "raises": True,
        "modifies": ["self.g_exec_cnt", "self.g_exec_last", "g_seq", "g_faults"] + _USER,
        "site_asserts": {"C06.X1 a component's execute() only runs after its on_enable() (and before its next on_disable())": "enabled(self)"},
        "ensures": dict(_EXEC_EV, **_NORMAL), "ensures_raise": dict(_EXEC_EV, **_RAISE), "note": "component.execute()",
    },
    "EnableHook.__call__": dict(_cb("self", ["self.g_on"], note="component.on_enable()"),
                                ensures=dict(_event("self"), **_NORMAL, **{"enabled": "self.g_on"}),
                                ensures_raise=dict(_event("self"), **_RAISE, **{"enabled": "self.g_on"})),
    "DisableHook.__call__": dict(_cb("self", ["EnableHook.g_on[*]"], note="component.on_disable()"),
                                 ensures=dict(_event("self"), **_NORMAL, **{"disabled": "implies(self.owner.on_enable is not None, not self.owner.on_enable.g_on)",
                                              "others": "forall(h, Ref_EnableHook, implies(not (h is self.owner.on_enable), h.g_on == old(h.g_on)))"}),
                                 ensures_raise=dict(_event("self"), **_RAISE, **{"disabled": "implies(self.owner.on_enable is not None, not self.owner.on_enable.g_on)",
                                                    "others": "forall(h, Ref_EnableHook, implies(not (h is self.owner.on_enable), h.g_on == old(h.g_on)))"})),
    "FbGetter.__call__": {
        "kind": "callback", "params": {}, "returns": "Ref:PyObj", "raises": True,
        "modifies": ["self.g_cnt", "self.g_last", "self.g_ok", "self.g_value", "g_seq", "g_faults"] + _USER,
        "ensures": dict(_event("self"), **_NORMAL, **{"returned value recorded": "self.g_ok and self.g_value is result"}),
        "ensures_raise": dict(_event("self"), **_RAISE, **{"no value": "not self.g_ok"}), "note": "@feedback getter",
    },
    "FbSetter.__call__": {
        "kind": "external", "params": {"value": "Ref:PyObj"}, "modifies": ["self.g_published", "self.g_cnt"],
        "ensures": {"the NT entry holds the value": "self.g_published is value", "one publish": "self.g_cnt == old(self.g_cnt) + 1"},
        "note": "ntcore publisher.set / entry.setValue (assumed; a raising setter - wrong value type - is outside C07/C11)",
    },
    "Periodic.__call__": _cb("self", note="robotPeriodic / simulationPeriodic"),
    f"{MR}.teleopPeriodic": _mode_cb("teleopPeriodic"),
    f"{MR}.disabledPeriodic": _mode_cb("disabledPeriodic"),
    f"{MR}.testPeriodic": _mode_cb("testPeriodic"),
    f"{MR}.autonomousInit": _mode_cb("autonomousInit", "init"),
    f"{MR}.teleopInit": _mode_cb("teleopInit", "init"),
    f"{MR}.disabledInit": _mode_cb("disabledInit", "init"),
    f"{MR}.testInit": _mode_cb("testInit", "init"),
    # ---------------------------------------------------------------- repo functions
    f"{MR}.onException": {
        "receivers": [MR], "params": {"forceReport": "Bool"}, "defaults": {"forceReport": False}, "raises": True,
        "modifies": [f"{MR}._MagicRobot__last_error_report[*]", "g_time", "g_reports"],
        "ensures": {"C07.E1 onException returns normally only with the FMS attached": "g_fms"},
        "ensures_raise": {"C07.E2 without the FMS attached the active exception is re-raised": "not g_fms"},
    },
    f"{MR}._do_periodics": {
        "receivers": [MR], "params": {}, "raises": True,
        "modifies": ["FbGetter.g_cnt[*]", "FbGetter.g_last[*]", "FbGetter.g_ok[*]", "FbGetter.g_value[*]", "FbSetter.g_published[*]", "FbSetter.g_cnt[*]",
                     "Periodic.g_cnt[*]", "Periodic.g_last[*]", "g_seq", "g_faults", "g_time", "g_reports", f"{MR}._MagicRobot__last_error_report[*]",
                     f"{MR}.g_dp_cnt[*]", "SimpleWatchdog._epochs[*]"] + _USER,
        "ghost_exit": {"self.g_dp_cnt": "old(self.g_dp_cnt) + 1"},
        "loops": {
            0: {"inv": {
                "done getters ran once; a value that was returned is published, a raising getter leaves its entry unchanged":
                    "forall(j, Int, implies(0 <= j and j < __i, fbs[j][0].g_cnt == old(fbs[j][0].g_cnt) + 1 and "
                    "(fbs[j][1].g_published is fbs[j][0].g_value and fbs[j][1].g_cnt == old(fbs[j][1].g_cnt) + 1 if fbs[j][0].g_ok else "
                    "fbs[j][1].g_published is old(fbs[j][1].g_published) and fbs[j][1].g_cnt == old(fbs[j][1].g_cnt))))",
                "remaining getters and setters untouched": "forall(j, Int, implies(__i <= j and j < len(fbs), fbs[j][0].g_cnt == old(fbs[j][0].g_cnt) and fbs[j][1].g_cnt == old(fbs[j][1].g_cnt) and fbs[j][1].g_published is old(fbs[j][1].g_published)))",
                "serials of done getters are increasing and belong to this call": "forall(j, Int, forall(k, Int, implies(0 <= j and j < __i, old(g_seq) < fbs[j][0].g_last and fbs[j][0].g_last <= g_seq and implies(j < k and k < __i, fbs[j][0].g_last < fbs[k][0].g_last))))",
                "periodics untouched so far": "forall(j, Int, implies(0 <= j and j < len(pers), pers[j][0].g_cnt == old(pers[j][0].g_cnt)))",
                "serial monotone": "g_seq >= old(g_seq)",
                "without FMS no fault so far": "implies(not g_fms, g_faults == old(g_faults)) and g_faults >= old(g_faults)",
            }},
            1: {"inv": {
                "feedback results kept": "forall(j, Int, implies(0 <= j and j < len(fbs), fbs[j][0].g_cnt == old(fbs[j][0].g_cnt) + 1 and "
                    "(fbs[j][1].g_published is fbs[j][0].g_value and fbs[j][1].g_cnt == old(fbs[j][1].g_cnt) + 1 if fbs[j][0].g_ok else "
                    "fbs[j][1].g_published is old(fbs[j][1].g_published) and fbs[j][1].g_cnt == old(fbs[j][1].g_cnt)) and old(g_seq) < fbs[j][0].g_last))",
                "feedback order kept": "forall(j, Int, forall(k, Int, implies(0 <= j and j < k and k < len(fbs), fbs[j][0].g_last < fbs[k][0].g_last)))",
                "done periodics ran once, after every feedback, in order": "forall(j, Int, forall(k, Int, implies(0 <= j and j < __i, pers[j][0].g_cnt == old(pers[j][0].g_cnt) + 1 and pers[j][0].g_last <= g_seq and old(g_seq) < pers[j][0].g_last "
                    "and implies(0 <= k and k < len(fbs), fbs[k][0].g_last < pers[j][0].g_last) and implies(j < k and k < __i, pers[j][0].g_last < pers[k][0].g_last))))",
                "remaining periodics untouched": "forall(j, Int, implies(__i <= j and j < len(pers), pers[j][0].g_cnt == old(pers[j][0].g_cnt)))",
                "feedback serials bounded": "forall(j, Int, implies(0 <= j and j < len(fbs), fbs[j][0].g_last <= g_seq))",
                "serial monotone": "g_seq >= old(g_seq)",
                "without FMS no fault so far": "implies(not g_fms, g_faults == old(g_faults)) and g_faults >= old(g_faults)",
            }},
        },
        "ensures": dict({
            "C11.F1 every @feedback getter is called exactly once": "forall(j, Int, implies(0 <= j and j < len(fbs), fbs[j][0].g_cnt == old(fbs[j][0].g_cnt) + 1))",
            "C11.F2 the entry holds the value returned in this iteration; a getter that raised leaves its entry unchanged and does not affect the others":
                "forall(j, Int, implies(0 <= j and j < len(fbs), (fbs[j][1].g_published is fbs[j][0].g_value and fbs[j][1].g_cnt == old(fbs[j][1].g_cnt) + 1 if fbs[j][0].g_ok else "
                "fbs[j][1].g_published is old(fbs[j][1].g_published) and fbs[j][1].g_cnt == old(fbs[j][1].g_cnt))))",
            "C05.P1 robotPeriodic (every periodic) runs exactly once, after all feedbacks": "forall(j, Int, forall(k, Int, implies(0 <= j and j < len(pers), pers[j][0].g_cnt == old(pers[j][0].g_cnt) + 1 and implies(0 <= k and k < len(fbs), fbs[k][0].g_last < pers[j][0].g_last))))",
            "C05.P2 all events of this call come after everything before it": "forall(j, Int, implies(0 <= j and j < len(fbs), old(g_seq) < fbs[j][0].g_last)) and forall(j, Int, implies(0 <= j and j < len(pers), old(g_seq) < pers[j][0].g_last)) and g_seq >= old(g_seq)",
            "C05.P3 no component's execute() is run by the periodics": f"forall(c, Ref_{COMP}, c.g_exec_cnt == old(c.g_exec_cnt))",
            "counted": "self.g_dp_cnt == old(self.g_dp_cnt) + 1",
        }, **G2),
        "ensures_raise": G1,
    },
    f"{MR}._enabled_periodic": {
        "receivers": [MR], "params": {}, "raises": True,
        "requires": {"C06.R1 every component has been enabled (on_enable ran since the last on_disable)": "forall(j, Int, implies(0 <= j and j < len(comps), enabled(comps[j][1])))"},
        "modifies": [f"{COMP}.g_exec_cnt[*]", f"{COMP}.g_exec_last[*]", "self.g_ep_cnt",
                     "FbGetter.g_cnt[*]", "FbGetter.g_last[*]", "FbGetter.g_ok[*]", "FbGetter.g_value[*]", "FbSetter.g_published[*]", "FbSetter.g_cnt[*]",
                     "Periodic.g_cnt[*]", "Periodic.g_last[*]", "g_seq", "g_faults", "g_time", "g_reports", f"{MR}._MagicRobot__last_error_report[*]",
                     f"{MR}.g_dp_cnt[*]", "SimpleWatchdog._epochs[*]"] + _USER,
        "ghost_exit": {"self.g_ep_cnt": "old(self.g_ep_cnt) + 1"},
        "loops": {
            0: {"inv": {
                "done components executed once, in declaration order, in this call": "forall(j, Int, forall(k, Int, implies(0 <= j and j < __i, comps[j][1].g_exec_cnt == old(comps[j][1].g_exec_cnt) + 1 "
                    "and old(g_seq) < comps[j][1].g_exec_last and comps[j][1].g_exec_last <= g_seq and implies(j < k and k < __i, comps[j][1].g_exec_last < comps[k][1].g_exec_last))))",
                "remaining components not executed yet": "forall(j, Int, implies(__i <= j and j < len(comps), comps[j][1].g_exec_cnt == old(comps[j][1].g_exec_cnt)))",
                "feedbacks and periodics untouched so far": "forall(j, Int, implies(0 <= j and j < len(fbs), fbs[j][0].g_cnt == old(fbs[j][0].g_cnt) and fbs[j][1].g_cnt == old(fbs[j][1].g_cnt) and fbs[j][1].g_published is old(fbs[j][1].g_published))) "
                    "and forall(j, Int, implies(0 <= j and j < len(pers), pers[j][0].g_cnt == old(pers[j][0].g_cnt))) and self.g_dp_cnt == old(self.g_dp_cnt)",
                "serial monotone": "g_seq >= old(g_seq)",
                "without FMS no fault so far": "implies(not g_fms, g_faults == old(g_faults)) and g_faults >= old(g_faults)",
            }},
            1: {"inv": {
                "done resets hold": "forall(j, Int, forall(k, Str, implies(0 <= j and j < __i and has(rsts[j][0].d, k), has(rsts[j][1].attrs, k) and rsts[j][1].attrs[k] is rsts[j][0].d[k])))",
                "untouched attributes": "forall(j, Int, forall(k, Str, implies(0 <= j and j < len(rsts) and (j >= __i or not has(rsts[j][0].d, k)), rsts[j][1].attrs[k] is at_loop_entry(rsts[j][1].attrs[k]) and has(rsts[j][1].attrs, k) == at_loop_entry(has(rsts[j][1].attrs, k)))))",
            }, "post": {
                "C10.R2 the reset never touches any other attribute of a component (relative to the state when the reset loop starts)":
                    "forall(j, Int, forall(k, Str, implies(0 <= j and j < len(rsts) and not has(rsts[j][0].d, k), rsts[j][1].attrs[k] is at_loop_entry(rsts[j][1].attrs[k]))))",
            }, "modifies": [f"{COMP}.attrs[*]"]},
        },
        "ensures": dict({
            "C05.O1 execute() of every component runs exactly once, in declaration order": "forall(j, Int, forall(k, Int, implies(0 <= j and j < len(comps), comps[j][1].g_exec_cnt == old(comps[j][1].g_exec_cnt) + 1 "
                "and old(g_seq) < comps[j][1].g_exec_last and implies(j < k and k < len(comps), comps[j][1].g_exec_last < comps[k][1].g_exec_last))))",
            "C05.O2 then the feedback publishers (each once), then robotPeriodic": "forall(j, Int, forall(k, Int, implies(0 <= j and j < len(comps), "
                "implies(0 <= k and k < len(fbs), comps[j][1].g_exec_last < fbs[k][0].g_last and fbs[k][0].g_cnt == old(fbs[k][0].g_cnt) + 1) and "
                "implies(0 <= k and k < len(pers), comps[j][1].g_exec_last < pers[k][0].g_last and pers[k][0].g_cnt == old(pers[k][0].g_cnt) + 1)))) "
                "and forall(j, Int, forall(k, Int, implies(0 <= j and j < len(pers) and 0 <= k and k < len(fbs), fbs[k][0].g_last < pers[j][0].g_last)))",
            "C10.R1 after the iteration every will_reset_to attribute is back at its default (also when callbacks raised on the FMS)":
                "forall(j, Int, forall(k, Str, implies(0 <= j and j < len(rsts) and has(rsts[j][0].d, k), has(rsts[j][1].attrs, k) and rsts[j][1].attrs[k] is rsts[j][0].d[k])))",
            "C11.F3 feedbacks are published in this iteration": "forall(j, Int, implies(0 <= j and j < len(fbs), fbs[j][0].g_cnt == old(fbs[j][0].g_cnt) + 1 and "
                "(fbs[j][1].g_published is fbs[j][0].g_value if fbs[j][0].g_ok else fbs[j][1].g_published is old(fbs[j][1].g_published))))",
            "counted": "self.g_ep_cnt == old(self.g_ep_cnt) + 1 and g_seq >= old(g_seq)",
        }, **G2),
        "ensures_raise": dict(G1, **{"C10.R3 with the FMS attached the iteration always reaches the will_reset_to reset (no exceptional exit skips it)": "not g_fms"}),
    },
    f"{MR}._on_mode_enable_components": {
        "receivers": [MR], "params": {}, "raises": True,
        "modifies": ["EnableHook.g_on[*]", "EnableHook.g_cnt[*]", "EnableHook.g_last[*]", "g_seq", "g_faults", "g_time", "g_reports", f"{MR}._MagicRobot__last_error_report[*]"] + _USER,
        "loops": {0: {"inv": {
            "done components are enabled, hooks called once in declaration order": "forall(j, Int, forall(k, Int, implies(0 <= j and j < __i, enabled(comps[j][1]) and implies(comps[j][1].on_enable is not None, "
                "comps[j][1].on_enable.g_cnt == old(comps[j][1].on_enable.g_cnt) + 1 and old(g_seq) < comps[j][1].on_enable.g_last and comps[j][1].on_enable.g_last <= g_seq and "
                "implies(j < k and k < __i and comps[k][1].on_enable is not None, comps[j][1].on_enable.g_last < comps[k][1].on_enable.g_last)))))",
            "remaining hooks untouched": "forall(j, Int, implies(__i <= j and j < len(comps) and comps[j][1].on_enable is not None, comps[j][1].on_enable.g_cnt == old(comps[j][1].on_enable.g_cnt)))",
            "serial monotone": "g_seq >= old(g_seq)",
            "without FMS no fault so far": "implies(not g_fms, g_faults == old(g_faults)) and g_faults >= old(g_faults)",
        }}},
        "ensures": dict({
            "C06.E1 every component's on_enable() is called once, in declaration order, also when some of them raise on the FMS":
                "forall(j, Int, forall(k, Int, implies(0 <= j and j < len(comps), enabled(comps[j][1]) and implies(comps[j][1].on_enable is not None, "
                "comps[j][1].on_enable.g_cnt == old(comps[j][1].on_enable.g_cnt) + 1 and old(g_seq) < comps[j][1].on_enable.g_last and comps[j][1].on_enable.g_last <= g_seq and "
                "implies(j < k and k < len(comps) and comps[k][1].on_enable is not None, comps[j][1].on_enable.g_last < comps[k][1].on_enable.g_last)))))",
            "serial monotone": "g_seq >= old(g_seq)",
        }, **G2),
        "ensures_raise": G1,
    },
    f"{MR}._on_mode_disable_components": {
        "receivers": [MR], "params": {}, "raises": True,
        "modifies": ["EnableHook.g_on[*]", "DisableHook.g_cnt[*]", "DisableHook.g_last[*]", "g_seq", "g_faults", "g_time", "g_reports", f"{MR}._MagicRobot__last_error_report[*]"] + _USER,
        "loops": {0: {"inv": {
            "done components: on_disable called once, in declaration order": "forall(j, Int, forall(k, Int, implies(0 <= j and j < __i and comps[j][1].on_disable is not None, "
                "comps[j][1].on_disable.g_cnt == old(comps[j][1].on_disable.g_cnt) + 1 and old(g_seq) < comps[j][1].on_disable.g_last and comps[j][1].on_disable.g_last <= g_seq and "
                "implies(j < k and k < __i and comps[k][1].on_disable is not None, comps[j][1].on_disable.g_last < comps[k][1].on_disable.g_last))))",
            "remaining hooks untouched": "forall(j, Int, implies(__i <= j and j < len(comps) and comps[j][1].on_disable is not None, comps[j][1].on_disable.g_cnt == old(comps[j][1].on_disable.g_cnt)))",
            "serial monotone": "g_seq >= old(g_seq)",
            "without FMS no fault so far": "implies(not g_fms, g_faults == old(g_faults)) and g_faults >= old(g_faults)",
        }}},
        "ensures": dict({
            "C06.D1 every component's on_disable() is called once, in declaration order, also when some of them raise on the FMS":
                "forall(j, Int, forall(k, Int, implies(0 <= j and j < len(comps) and comps[j][1].on_disable is not None, "
                "comps[j][1].on_disable.g_cnt == old(comps[j][1].on_disable.g_cnt) + 1 and old(g_seq) < comps[j][1].on_disable.g_last and comps[j][1].on_disable.g_last <= g_seq and "
                "implies(j < k and k < len(comps) and comps[k][1].on_disable is not None, comps[j][1].on_disable.g_last < comps[k][1].on_disable.g_last))))",
            "serial monotone": "g_seq >= old(g_seq)",
        }, **G2),
        "ensures_raise": G1,
    },
}


# ---------------------------------------------------------------- mode functions
_LOOP_MOD = [f"{COMP}.g_exec_cnt[*]", f"{COMP}.g_exec_last[*]", f"{MR}.g_ep_cnt[*]", f"{MR}.g_dp_cnt[*]", f"{MR}.g_mode_cnt[*]", f"{MR}.g_mode_last[*]",
             f"{MR}.g_init_cnt[*]", f"{MR}.g_init_last[*]",
             "FbGetter.g_cnt[*]", "FbGetter.g_last[*]", "FbGetter.g_ok[*]", "FbGetter.g_value[*]", "FbSetter.g_published[*]", "FbSetter.g_cnt[*]",
             "Periodic.g_cnt[*]", "Periodic.g_last[*]", "g_seq", "g_faults", "g_time", "g_reports", f"{MR}._MagicRobot__last_error_report[*]",
             "EnableHook.g_on[*]", "EnableHook.g_cnt[*]", "EnableHook.g_last[*]", "DisableHook.g_cnt[*]", "DisableHook.g_last[*]",
             "NtStrSetter.g_value[*]", "NtBoolSetter.g_bvalue[*]", "g_now", "g_warns", "g_ds_enabled", "g_ds_auto", "g_ds_test",
             "wpilib.DSControlWord.en[*]", "wpilib.DSControlWord.auto[*]", "wpilib.DSControlWord.test[*]",
             "NotifierDelay.delay_period[*]", "NotifierDelay._notifier[*]", "NotifierDelay._expiry_time[*]", "NotifierDelay.g_t0[*]", "NotifierDelay.g_k[*]",
             "Handle.alarm[*]", "Handle.updates[*]", "Handle.stops[*]", "Handle.cleaned[*]",
             "SimpleWatchdog._epochs[*]", "SimpleWatchdog._startTime[*]", "SimpleWatchdog._expirationTime[*]", "SimpleWatchdog._lastEpochsPrintTime[*]", "SimpleWatchdog.g_armed[*]"] + _USER

_DELAY_OK = "delay is not None and inv(delay) and delay.g_k >= 0 and delay._notifier is not None"
_NOFAULT = "implies(not g_fms, g_faults == old(g_faults)) and g_faults >= old(g_faults)"
_ALL_ENABLED = "forall(j, Int, implies(0 <= j and j < len(comps), enabled(comps[j][1])))"
_EN_ONCE = ("forall(j, Int, implies(0 <= j and j < len(comps) and comps[j][1].on_enable is not None, comps[j][1].on_enable.g_cnt == old(comps[j][1].on_enable.g_cnt) + 1 "
            "and comps[j][1].on_enable.g_last < self.g_init_last))")
_DIS_NONE = "forall(j, Int, implies(0 <= j and j < len(comps) and comps[j][1].on_disable is not None, comps[j][1].on_disable.g_cnt == old(comps[j][1].on_disable.g_cnt)))"
_DIS_ONCE_AFTER = ("forall(j, Int, implies(0 <= j and j < len(comps) and comps[j][1].on_disable is not None, comps[j][1].on_disable.g_cnt == old(comps[j][1].on_disable.g_cnt) + 1 "
                   "and self.g_init_last < comps[j][1].on_disable.g_last))")
_DIS_ONCE_BEFORE = ("forall(j, Int, implies(0 <= j and j < len(comps) and comps[j][1].on_disable is not None, comps[j][1].on_disable.g_cnt == old(comps[j][1].on_disable.g_cnt) + 1 "
                    "and comps[j][1].on_disable.g_last < self.g_init_last))")
_NO_EXEC = f"forall(c, Ref_{COMP}, c.g_exec_cnt == old(c.g_exec_cnt))"
_MODE_FIRST = "implies(delay.g_k > 0, forall(j, Int, implies(0 <= j and j < len(comps), self.g_mode_last < comps[j][1].g_exec_last)))"


def _nt_cb(cls, field, sort):
    return {"kind": "external", "params": {"value": sort}, "modifies": [f"self.{field}"], "ensures": {"NT entry set": f"self.{field} == value"},
            "note": "ntcore entry setter bound in robotInit (assumed)"}


CONTRACTS[f"{MR}.teleopPeriodic"]["site_asserts_in"] = {f"{MR}._operatorControl": {
    "C05.T7 the teleop loop only runs its iteration while the driver station says teleop is enabled": "g_ds_enabled and not g_ds_auto and not g_ds_test"}}
CONTRACTS[f"{MR}.disabledPeriodic"]["site_asserts_in"] = {f"{MR}._disabled": {
    "C05.D7 the disabled loop only runs its iteration while the driver station says disabled": "not g_ds_enabled"}}
CONTRACTS[f"{MR}.testPeriodic"]["site_asserts_in"] = {f"{MR}._test": {
    "C05.X7 the test loop only runs its iteration while the driver station says test and enabled": "g_ds_enabled and g_ds_test"}}

CONTRACTS.update({
    "NtStrSetter.__call__": _nt_cb("NtStrSetter", "g_value", "Str"),
    "NtBoolSetter.__call__": _nt_cb("NtBoolSetter", "g_bvalue", "Bool"),
    "BoolFn.__call__": {"kind": "external", "params": {}, "returns": "Bool", "ensures": {}, "note": "DriverStation.isDSAttached (arbitrary input)"},
    f"{MR}._operatorControl": {
        "receivers": [MR], "params": {}, "raises": True, "modifies": _LOOP_MOD,
        "loops": {0: {"inv": {
            "C05.T1 (also C10, C11: components, feedbacks and the reset run in every iteration, also when teleopPeriodic raised on the FMS) per completed iteration teleopPeriodic and _enabled_periodic ran exactly once each (one NotifierDelay.wait() per iteration)":
                "self.g_mode_cnt == old(self.g_mode_cnt) + delay.g_k and self.g_ep_cnt == old(self.g_ep_cnt) + delay.g_k",
            "C05.T2 the mode's own code ran before the components in the last iteration": _MODE_FIRST,
            "C05.T3 /robot/mode names the mode": "self._MagicRobot__nt_put_mode.g_value == 'teleop'",
            "C06.T4 every component stays enabled while the loop runs": _ALL_ENABLED,
            "C06.T5 on_enable of every component ran once, before teleopInit; no on_disable yet": _EN_ONCE + " and " + _DIS_NONE + " and self.g_init_cnt == old(self.g_init_cnt) + 1",
            "delay consistent and live": _DELAY_OK, "watchdog consistent": "inv(self.watchdog) and watchdog is self.watchdog",
            "serial monotone": "g_seq >= old(g_seq) and self.g_init_last <= g_seq",
            "without FMS no fault so far": _NOFAULT,
        }}},
        "ensures": dict({
            "C05.T1 per teleop iteration teleopPeriodic then every component's execute() (via _enabled_periodic) exactly once; one wait per iteration on a NotifierDelay of control_loop_wait_time":
                "self.g_mode_cnt == old(self.g_mode_cnt) + delay.g_k and self.g_ep_cnt == old(self.g_ep_cnt) + delay.g_k and delay._notifier is None and " + _MODE_FIRST,
            "C05.T3 /robot/mode was 'teleop' throughout": "self._MagicRobot__nt_put_mode.g_value == 'teleop'",
            "C06.T6 on entering teleop every on_enable ran (once) before teleopInit; on leaving every on_disable ran (once) after everything else": _EN_ONCE + " and " + _DIS_ONCE_AFTER,
            "serial monotone": "g_seq >= old(g_seq)",
        }, **G2),
        "ensures_raise": G1,
    },
    f"{MR}._disabled": {
        "receivers": [MR], "params": {}, "raises": True, "modifies": _LOOP_MOD,
        "loops": {0: {"inv": {
            "C05.D1 (also C11: feedbacks every iteration) per completed iteration disabledPeriodic and the periodics ran exactly once each": "self.g_mode_cnt == old(self.g_mode_cnt) + delay.g_k and self.g_dp_cnt == old(self.g_dp_cnt) + delay.g_k",
            "C05.D2 no component's execute() runs in disabled mode": _NO_EXEC + " and self.g_ep_cnt == old(self.g_ep_cnt)",
            "C05.D3 /robot/mode names the mode": "self._MagicRobot__nt_put_mode.g_value == 'disabled'",
            "C06.D4 on entering disabled every on_disable ran once, before disabledInit": _DIS_ONCE_BEFORE + " and self.g_init_cnt == old(self.g_init_cnt) + 1",
            "delay consistent and live": _DELAY_OK, "watchdog consistent": "inv(self.watchdog) and watchdog is self.watchdog",
            "serial monotone": "g_seq >= old(g_seq) and self.g_init_last <= g_seq",
            "without FMS no fault so far": _NOFAULT,
        }, "local_sorts": {"ds_attached": "Opt[Bool]"}}},
        "ensures": dict({
            "C05.D1 per disabled iteration disabledPeriodic, the feedbacks and robotPeriodic exactly once; one wait per iteration": "self.g_mode_cnt == old(self.g_mode_cnt) + delay.g_k and self.g_dp_cnt == old(self.g_dp_cnt) + delay.g_k and delay._notifier is None",
            "C05.D2 no component's execute() runs in disabled mode": _NO_EXEC + " and self.g_ep_cnt == old(self.g_ep_cnt)",
            "C05.D3 /robot/mode was 'disabled' throughout": "self._MagicRobot__nt_put_mode.g_value == 'disabled'",
            "C06.D4 on entering disabled every on_disable ran once, before disabledInit": _DIS_ONCE_BEFORE,
            "serial monotone": "g_seq >= old(g_seq)",
        }, **G2),
        "ensures_raise": G1,
    },
    f"{MR}._test": {
        "receivers": [MR], "params": {}, "raises": True, "modifies": _LOOP_MOD,
        "loops": {0: {"inv": {
            "C05.X1 (also C11: feedbacks every iteration) per completed iteration testPeriodic and the periodics ran exactly once each": "self.g_mode_cnt == old(self.g_mode_cnt) + delay.g_k and self.g_dp_cnt == old(self.g_dp_cnt) + delay.g_k",
            "C05.X2 no component's execute() runs in test mode": _NO_EXEC + " and self.g_ep_cnt == old(self.g_ep_cnt)",
            "C05.X3 /robot/mode names the mode": "self._MagicRobot__nt_put_mode.g_value == 'test'",
            "delay consistent and live": _DELAY_OK, "watchdog consistent": "inv(self.watchdog) and watchdog is self.watchdog",
            "serial monotone": "g_seq >= old(g_seq)", "without FMS no fault so far": _NOFAULT,
        }}},
        "ensures": dict({
            "C05.X1 per test iteration testPeriodic, the feedbacks and robotPeriodic exactly once; one wait per iteration": "self.g_mode_cnt == old(self.g_mode_cnt) + delay.g_k and self.g_dp_cnt == old(self.g_dp_cnt) + delay.g_k and delay._notifier is None",
            "C05.X2 no component's execute() runs in test mode": _NO_EXEC + " and self.g_ep_cnt == old(self.g_ep_cnt)",
            "C05.X3 /robot/mode was 'test' throughout": "self._MagicRobot__nt_put_mode.g_value == 'test'",
            "serial monotone": "g_seq >= old(g_seq)",
        }, **G2),
        "ensures_raise": G1,
    },
    f"{MR}.endCompetition": {
        "receivers": [MR], "params": {}, "modifies": ["self._MagicRobot__done", "self._automodes.robot_exit"],
        "ensures": {"C06.Z1 endCompetition only raises the two exit flags (it may be called from another thread in the middle of an iteration: it must not run component callbacks itself)":
                    "self._MagicRobot__done and self._automodes.robot_exit"},
    },
    f"{MR}.autonomous": {
        "receivers": [MR], "params": {}, "raises": True,
        "requires": {"the offered autonomous modes are idle when the period starts (the previous period was closed)": "forall(m, Ref_AutoMode, implies(m is not None and (m is g_choice or exists_mode(self._automodes, m)), m.g_state == 0))"},
        "modifies": _LOOP_MOD + ["AutonomousModeSelector.active_mode[*]", "AutonomousModeSelector.g_chosen[*]", "AutonomousModeSelector.g_iters[*]", "IterFn.g_cnt[*]", "IterFn.g_last[*]", "IterFn.robot[*]", "IterFn.kind[*]",
                                 "ExcHandler.robot[*]", "ExcHandler.kind[*]", "wpilib.Timer.g_last[*]",
                                 "AutoMode.g_state[*]", "AutoMode.g_en_cnt[*]", "AutoMode.g_it_cnt[*]", "AutoMode.g_dis_cnt[*]", "AutoMode.g_last_t[*]", "AutoMode.g_last[*]"],
        "ensures": dict({
            "C05.A4 /robot/mode was 'auto' throughout": "self._MagicRobot__nt_put_mode.g_value == 'auto'",
            "C06.A5 on entering autonomous every on_enable ran (once) before autonomousInit; on leaving every on_disable ran (once) after it": _EN_ONCE + " and " + _DIS_ONCE_AFTER,
            "C14.A6 the selected mode is the dashboard string's mode if it names one, else the chooser selection": "self._automodes.g_chosen is (self._automodes.modes[unwrap(g_dash)] if (g_dash is not None and has(self._automodes.modes, unwrap(g_dash))) else g_choice)",
            "C14.A7 when the period ends every offered autonomous mode is idle again (the next period may start)": "forall(m, Ref_AutoMode, implies(m is not None and (m is g_choice or exists_mode(self._automodes, m)), m.g_state == 0))",
            "serial monotone": "g_seq >= old(g_seq)",
        }, **G2),
        "ensures_raise": G1,
    },
})

# ---------------------------------------------------------------- the mode-switching loop
_IDLE = "forall(m, Ref_AutoMode, implies(m is not None and (m is g_choice or exists_mode(self._automodes, m)), m.g_state == 0))"
CONTRACTS.update({
    "MagicRobot.getControlState": {"kind": "external", "receivers": [MR], "params": {}, "returns": "(Bool,Bool,Bool)", "modifies": ["g_ds_enabled", "g_ds_auto", "g_ds_test"],
                                   "ensures": {"the driver station's current (enabled, autonomous, test) flags": "result[0] == g_ds_enabled and result[1] == g_ds_auto and result[2] == g_ds_test"},
                                   "note": "wpilib.RobotBase.getControlState(): refreshes and returns the control word (arbitrary input)"},
    "robot.with_block": {"kind": "callback", "params": {}, "raises": True, "modifies": ["g_faults", "g_seq"] + _USER, "ensures": dict({"serial monotone": "g_seq >= old(g_seq)"}, **_NORMAL),
                         "ensures_raise": dict({"serial monotone": "g_seq >= old(g_seq)"}, **_RAISE), "note": "the user's with-block running at the bare `yield` of consumeExceptions (a @contextmanager generator)"},
    f"{MR}.consumeExceptions": {
        "receivers": [MR], "params": {"forceReport": "Bool"}, "defaults": {"forceReport": False}, "raises": True,
        "modifies": ["g_faults", "g_seq", "g_time", "g_reports", f"{MR}._MagicRobot__last_error_report[*]"] + _USER,
        "ensures": dict({"C07.X2 (user-facing helper, same policy) with consumeExceptions(): an exception of the block is consumed only with the FMS attached": "implies(not g_fms, g_faults == old(g_faults))"}),
        "ensures_raise": {"C07.X1 (user-facing helper, same policy) an exception of the with-block leaves consumeExceptions() only without the FMS": "not g_fms"},
    },
    f"{MR}._MagicRobot__simulationPeriodic#body": {
        "source": f"{MR}.__simulationPeriodic", "receivers": [MR], "params": {}, "raises": True, "modifies": ["g_faults", "g_seq", "g_sim_before", "g_sim_after"] + _USER,
        "ensures": {"C05.N3 the simulation periodic brackets the user's _simulationPeriodic() with hal.simPeriodicBefore / hal.simPeriodicAfter": "g_sim_before == old(g_sim_before) + 1 and g_sim_after == old(g_sim_after) + 1"},
        "ensures_raise": {"only the user hook raises (after simPeriodicBefore)": "g_sim_before == old(g_sim_before) + 1 and g_sim_after == old(g_sim_after)"},
    },
    "hal.simPeriodicBefore": {"kind": "external", "params": {}, "modifies": ["g_sim_before"], "ensures": {"counted": "g_sim_before == old(g_sim_before) + 1"}, "note": "hal"},
    "hal.simPeriodicAfter": {"kind": "external", "params": {}, "modifies": ["g_sim_after"], "ensures": {"counted": "g_sim_after == old(g_sim_after) + 1"}, "note": "hal"},
    f"{MR}._simulationPeriodic": {"kind": "callback", "params": {}, "raises": True, "modifies": ["g_faults", "g_seq"] + _USER, "ensures": {}, "note": "user-overridable hook (pyfrc physics)"},
    "hal.report": {"kind": "external", "params": {"resource": "py", "instance": "py"}, "ensures": {}, "note": "hal usage reporting"},
    "RobotBase.__init__": {"kind": "external", "receivers": ["RobotBase"], "params": {}, "modifies": [], "ensures": {}, "note": "wpilib.RobotBase constructor"},
    f"{MR}.__init__": {
        "receivers": [MR], "ctor": True, "no_wf": True, "params": {},
        "modifies": ["self._exclude_from_injection", "self._MagicRobot__last_error_report", "self._components", "self._feedbacks", "self._reset_components", "self._MagicRobot__done",
                     "self._MagicRobot__is_ds_attached", "BoolFn.entry[*]"],
        "ensures": {"C06.Z0 a new robot has no components, feedbacks or reset entries yet, the mode loop's exit flag is down, only 'logger' is excluded from injection and the first error report is not rate-limited":
                    "len(comps) == 0 and len(fbs) == 0 and len(rsts) == 0 and not self._MagicRobot__done and len(self._exclude_from_injection) == 1 and self._exclude_from_injection[0] == 'logger' and "
                    "self._MagicRobot__last_error_report == -10 and self._MagicRobot__is_ds_attached is not None"},
    },
    # --- what robotInit calls
    f"{MR}.createObjects": {"kind": "callback", "params": {}, "raises": True, "modifies": ["g_faults"] + _USER, "ensures": _NORMAL, "ensures_raise": _RAISE, "note": "user code: creates the robot's wpilib objects"},
    f"{MR}._simulationInit": {"kind": "callback", "params": {}, "modifies": _USER, "ensures": {}, "note": "user-overridable hook (pyfrc)"},
    f"{MR}.robotPeriodic": {"kind": "callback", "params": {}, "raises": True, "modifies": ["g_faults", "g_seq"] + _USER, "ensures": {}, "note": "user-overridable robotPeriodic(): only referenced (stored in the periodics list) by robotInit"},
    f"{MR}._MagicRobot__simulationPeriodic": {"kind": "callback", "params": {}, "raises": True, "modifies": ["g_faults", "g_seq"] + _USER, "ensures": {}, "note": "hal.simPeriodicBefore / _simulationPeriodic / hal.simPeriodicAfter: only referenced by robotInit"},
    f"{MR}.isSimulation": {"kind": "external", "params": {}, "returns": "Bool", "ensures": {"simulation flag (stable)": "result == g_sim"}, "note": "wpilib.RobotBase.isSimulation()"},
    "AutonomousModeSelector.__init__": {"kind": "external", "ctor": True, "cites": ['C14.M2', 'C14.O1'], "receivers": ["AutonomousModeSelector"], "params": {"autonomous_pkgname": "Str"}, "raises": True, "modifies": [],
                                        "ensures": {"a selector whose discovered modes are idle, nothing active (verified in contracts/seldisc.py)":
                                                    "self.active_mode is None and not self.robot_exit and self.chooser is not None and forall(m, Ref_AutoMode, implies(exists_mode(self, m), m.g_state == 0)) and "
                                                    "forall(k, Str, implies(has(self.modes, k), self.modes[k] is not None and exists_mode(self, self.modes[k]))) and implies(g_choice is not None, exists_mode(self, g_choice))"},
                                        "note": "AutonomousModeSelector('autonomous'): the constructor is verified in its own sidecar group (contracts/seldisc.py); here its result is assumed"},
    f"{MR}._create_components": {"receivers": [MR], "params": {}, "raises": True, "verify": False, "cites": ['C06.S4', 'C11.S6', 'C10.S5'],
                                 "requires": {"C06.S0 the autonomous mode selector exists already (its modes are injection targets and get their setup() here)": "self._automodes is not None"},
                                 "modifies": ["self._components", "self._feedbacks", "self._reset_components", "g_faults", "g_seq"] + _USER,
                                 "ensures": {"the lists are well formed (verified in contracts/robotinit.py: C06.S4 new pairwise distinct components, C11.S6 feedback getters/setters existing and pairwise distinct, C10.S5 reset entries with pairwise distinct components)":
                                             "len(comps) >= 0 and len(fbs) >= 0 and len(rsts) >= 0 and "
                                             "forall(a, Int, forall(b, Int, implies(0 <= a and a < b and b < len(comps), not (comps[a][1] is comps[b][1])))) and forall(a, Int, implies(0 <= a and a < len(comps), comps[a][1] is not None)) and "
                                             "forall(a, Int, forall(b, Int, implies(0 <= a and a < b and b < len(fbs), not (fbs[a][0] is fbs[b][0]) and not (fbs[a][1] is fbs[b][1])))) and forall(a, Int, implies(0 <= a and a < len(fbs), fbs[a][0] is not None and fbs[a][1] is not None)) and "
                                             "forall(a, Int, forall(b, Int, implies(0 <= a and a < len(rsts), rsts[a][0] is not None and rsts[a][1] is not None and implies(a < b and b < len(rsts), not (rsts[a][1] is rsts[b][1]))))) and "
                                             "g_faults == old(g_faults) and g_seq >= old(g_seq)"},
                                 "note": "_create_components: verified in contracts/robotinit.py (separate class table); its effect on the lists is assumed here"},
    "ntcore.NetworkTableInstance.getDefault": {"kind": "external", "params": {}, "returns": "Ref:RNTInst", "ensures": {"an instance": "result is not None"}, "note": "ntcore"},
    "RNTInst.getTable": {"kind": "external", "params": {"path": "Str"}, "returns": "Ref:RNTTable", "ensures": {"table": "result is not None and result.path == path"}, "note": "ntcore"},
    "RNTTable.getEntry": {"kind": "external", "params": {"key": "Str"}, "returns": "Ref:RNTEntry", "ensures": {"entry <table>/<key>": "result is not None and result.key == self.path + '/' + key"}, "note": "ntcore"},
    "RNTTable.putBoolean": {"kind": "external", "params": {"key": "Str", "value": "Bool"}, "ensures": {}, "note": "ntcore"},
    "RNTEntry.setString": {"kind": "external", "params": {"value": "Str"}, "ensures": {}, "note": "ntcore (only stored as a bound method by robotInit)"},
    "RNTEntry.setBoolean": {"kind": "external", "params": {"value": "Bool"}, "ensures": {}, "note": "ntcore (only stored as a bound method by robotInit)"},
    f"{MR}.robotInit": {
        "receivers": [MR], "params": {}, "raises": True, "no_wf": True,
        "requires": {"W11 the loop period is at least 1 ms": "self.control_loop_wait_time >= 0.001"},
        "ghost_entry": {"g_robot_init_failed": "False"}, "ghost_raise": {"g_robot_init_failed": "True"},
        "modifies": ["g_robot_init_failed", "self._automodes", "self._components", "self._feedbacks", "self._reset_components", "self._MagicRobot__is_ds_attached", "self._MagicRobot__nt",
                     "self._MagicRobot__nt_put_is_ds_attached", "self._MagicRobot__nt_put_mode", "self.watchdog", "self._MagicRobot__periodics", "g_faults", "g_seq",
                     "NtBoolSetter.g_bvalue[*]", "Periodic.robot[*]", "Periodic.kind[*]", "NtStrSetter.entry[*]", "NtBoolSetter.entry[*]", "BoolFn.entry[*]"] + _USER,
        "ensures": {
            "start-up succeeded": "not g_robot_init_failed",
            "the autonomous modes found at start-up are idle": "self._automodes is not None and forall(m, Ref_AutoMode, implies(m is not None and (m is g_choice or exists_mode(self._automodes, m)), m.g_state == 0))",
            "no fault without the FMS": "implies(not g_fms, g_faults == old(g_faults)) and g_faults >= old(g_faults)", "serial monotone": "g_seq >= old(g_seq)",
            "C05.N1 the mode loops write the NetworkTables entries /robot/mode and /robot/is_ds_attached":
                "self._MagicRobot__nt_put_mode is not None and self._MagicRobot__nt_put_mode.entry is not None and self._MagicRobot__nt_put_mode.entry.key == '/robot/mode' and "
                "self._MagicRobot__nt_put_is_ds_attached is not None and self._MagicRobot__nt_put_is_ds_attached.entry is not None and self._MagicRobot__nt_put_is_ds_attached.entry.key == '/robot/is_ds_attached'",
            "C05.N2 the periodics run after the feedbacks are robotPeriodic (and, in simulation only, simulationPeriodic after it), bound to this robot":
                "len(pers) == (2 if g_sim else 1) and pers[0][0] is not None and pers[0][0].kind == 0 and pers[0][0].robot is self and implies(g_sim, pers[1][0] is not None and pers[1][0].kind == 1 and pers[1][0].robot is self and not (pers[1][0] is pers[0][0]))",
            "W8/W10 helpers exist; the watchdog is a consistent SimpleWatchdog": "self.watchdog is not None and inv(self.watchdog) and self._MagicRobot__is_ds_attached is not None",
            "W1-W7 lists well formed (from _create_components)": "forall(a, Int, implies(0 <= a and a < len(comps), comps[a][1] is not None)) and forall(a, Int, forall(b, Int, implies(0 <= a and a < b and b < len(comps), not (comps[a][1] is comps[b][1]))))",
        },
        "ensures_raise": {"start-up failed": "g_robot_init_failed"},
    },
    f"{MR}.startCompetition": {
        "receivers": [MR], "params": {}, "raises": True, "no_wf": True, "ghost_entry": {"g_robot_init_failed": "False"},
        "requires": {"W11 the loop period is at least 1 ms": "self.control_loop_wait_time >= 0.001"},
        "modifies": ["g_robot_init_failed", f"{MR}._MagicRobot__done[*]", "self._automodes", "self._components", "self._feedbacks", "self._reset_components", "self._MagicRobot__is_ds_attached", "self._MagicRobot__nt",
                     "self._MagicRobot__nt_put_is_ds_attached", "self._MagicRobot__nt_put_mode", "self.watchdog", "self._MagicRobot__periodics",
                     "Periodic.robot[*]", "Periodic.kind[*]", "NtStrSetter.entry[*]", "NtBoolSetter.entry[*]", "BoolFn.entry[*]"] + _LOOP_MOD + ["AutonomousModeSelector.active_mode[*]", "AutonomousModeSelector.g_chosen[*]", "AutonomousModeSelector.g_iters[*]", "IterFn.g_cnt[*]", "IterFn.g_last[*]", "IterFn.robot[*]", "IterFn.kind[*]",
                                 "ExcHandler.robot[*]", "ExcHandler.kind[*]", "wpilib.Timer.g_last[*]",
                                 "AutoMode.g_state[*]", "AutoMode.g_en_cnt[*]", "AutoMode.g_it_cnt[*]", "AutoMode.g_dis_cnt[*]", "AutoMode.g_last_t[*]", "AutoMode.g_last[*]"],
        "loops": {0: {"inv": {"between two modes every offered autonomous mode is idle (the period was closed)": _IDLE, "serial monotone": "g_seq >= old(g_seq)", "without FMS no fault so far": _NOFAULT}}},
        "drop_callee_ensures": {f"{MR}._operatorControl": ["C05.T1"], f"{MR}._disabled": ["C05.D1"], f"{MR}._test": ["C05.X1"]},     # they speak about the callee's local NotifierDelay
        "ensures": dict({"C06.Z2 the mode loop ends only after endCompetition() raised the exit flag": "self._MagicRobot__done"}, **G2),
        "ensures_raise": {"C07.G3 with the FMS attached nothing but a failing start-up (robotInit: createObjects, injection, autonomous discovery) leaves the mode loop": "not g_fms or g_robot_init_failed"},
    },
})
for _fn, _cond, _txt in (("_disabled", "not L_isEnabled", "the disabled loop is entered exactly when the driver station says disabled"),
                         ("autonomous", "L_isEnabled and L_isAutonomous", "the autonomous period is entered exactly when the driver station says enabled and autonomous"),
                         ("_test", "L_isEnabled and not L_isAutonomous and L_isTest", "the test loop is entered exactly when the driver station says enabled, not autonomous, test"),
                         ("_operatorControl", "L_isEnabled and not L_isAutonomous and not L_isTest", "the teleop loop is entered exactly when the driver station says enabled and neither autonomous nor test")):
    CONTRACTS[f"{MR}.{_fn}"].setdefault("site_asserts_in", {})[f"{MR}.startCompetition"] = {
        f"C05.M1 (also C06: each mode function brackets its loop with on_enable/on_disable of every component) {_txt}": _cond + " and L_isEnabled == g_ds_enabled and L_isAutonomous == g_ds_auto and L_isTest == g_ds_test"}

DYN_GETATTR = {"__dict__.update": "robot.dict_update"}
YIELD_EVENTS = {f"{MR}.consumeExceptions": "robot.with_block"}
NAMES = {"NotifierDelay": ("dotted", "NotifierDelay"), "SimpleWatchdog": ("dotted", "SimpleWatchdog"), "AutonomousModeSelector": ("dotted", "AutonomousModeSelector")}

ASSUMPTIONS = [
    "the component/feedback/periodic/reset lists are well formed (distinct existing objects: postcondition of _create_components / robotInit, see C06/C08)",
    "user callbacks change framework-private state only through the public API; their effect on user data is arbitrary (havoc of Component.attrs)",
    "isFMSAttached is stable during one iteration / transition",
    "ntcore setters do not raise (a setter raising on a wrong value type is outside C07/C11)",
    "component.__dict__.update(reset_dict) has dict.update semantics on the instance attributes (modelled as a map)",
]

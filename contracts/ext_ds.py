"""Assumed contracts on the driver-station / HAL observation externals: arbitrary inputs, no framework-visible effect."""
def _noop(params=None, returns=None, note="no framework-visible effect"):
    d = {"kind": "external", "params": params or {}, "modifies": [], "ensures": {}, "note": note}
    if returns:
        d["returns"] = returns
    return d

GLOBALS = {"g_ds_enabled": "Bool", "g_ds_auto": "Bool", "g_ds_test": "Bool"}
CLASSES = {"wpilib.DSControlWord": {"fields": {"en": "Bool", "auto": "Bool", "test": "Bool"}}, "wpilib.Timer": {"fields": {"g_last": "Real"}}}
CONTRACTS = {
    "wpilib.DriverStation.refreshData": {"kind": "external", "params": {}, "modifies": ["g_ds_enabled", "g_ds_auto", "g_ds_test"], "ensures": {},
                                         "note": "new (arbitrary) control word from the driver station"},
    "wpilib.DriverStation.isTeleopEnabled": {"kind": "external", "params": {}, "returns": "Bool", "ensures": {"enabled and neither autonomous nor test": "result == (g_ds_enabled and not g_ds_auto and not g_ds_test)"}},
    "wpilib.DriverStation.isAutonomousEnabled": {"kind": "external", "params": {}, "returns": "Bool", "ensures": {"enabled and autonomous": "result == (g_ds_enabled and g_ds_auto)"}},
    "hal.observeUserProgramTeleop": _noop(), "hal.observeUserProgramDisabled": _noop(),
    "hal.observeUserProgramTest": _noop(), "hal.observeUserProgramAutonomous": _noop(),
    "hal.observeUserProgramStarting": _noop(),
    "wpilib.LiveWindow.setEnabled": _noop({"on": "py"}),
    "wpilib.DSControlWord.__init__": {"kind": "external", "params": {}, "modifies": ["self.en", "self.auto", "self.test"],
                                      "ensures": {"snapshot of the current control word": "self.en == g_ds_enabled and self.auto == g_ds_auto and self.test == g_ds_test"}},
    "wpilib.DSControlWord.isEnabled": {"kind": "external", "params": {}, "returns": "Bool", "ensures": {"flag": "result == self.en"}},
    "wpilib.DSControlWord.isTest": {"kind": "external", "params": {}, "returns": "Bool", "ensures": {"flag": "result == self.test"}},
    "wpilib.DSControlWord.isAutonomous": {"kind": "external", "params": {}, "returns": "Bool", "ensures": {"flag": "result == self.auto"}},
    "wpilib.DSControlWord.isTeleop": {"kind": "external", "params": {}, "returns": "Bool", "ensures": {"flag": "result == (not self.auto and not self.test)"}},
    "wpilib.DSControlWord.isDSAttached": _noop(returns="Bool", note="arbitrary driver-station input"),
    "wpilib.Timer.__init__": {"kind": "external", "params": {}, "modifies": ["self.g_last"], "ensures": {"starts at 0": "self.g_last == 0"}},
    "wpilib.Timer.start": _noop(),
    "wpilib.Timer.get": {"kind": "external", "params": {}, "returns": "Real", "modifies": ["self.g_last"],
                         "ensures": {"elapsed time is non-decreasing": "result >= old(self.g_last) and self.g_last == result"},
                         "note": "Timer.get(): non-decreasing elapsed time"},
}

"""Assumed contracts on the driver-station / HAL observation externals: arbitrary inputs, no framework-visible effect."""
def _noop(params=None, returns=None, note="no framework-visible effect"):
    d = {"kind": "external", "params": params or {}, "modifies": [], "ensures": {}, "note": note}
    if returns:
        d["returns"] = returns
    return d

CLASSES = {"wpilib.DSControlWord": {"fields": {}}, "wpilib.Timer": {"fields": {"g_last": "Real"}}}
CONTRACTS = {
    "wpilib.DriverStation.refreshData": _noop(),
    "wpilib.DriverStation.isTeleopEnabled": _noop(returns="Bool", note="arbitrary driver-station input"),
    "wpilib.DriverStation.isAutonomousEnabled": _noop(returns="Bool", note="arbitrary driver-station input"),
    "hal.observeUserProgramTeleop": _noop(), "hal.observeUserProgramDisabled": _noop(),
    "hal.observeUserProgramTest": _noop(), "hal.observeUserProgramAutonomous": _noop(),
    "hal.observeUserProgramStarting": _noop(),
    "wpilib.LiveWindow.setEnabled": _noop({"on": "py"}),
    "wpilib.DSControlWord.__init__": _noop(),
    "wpilib.DSControlWord.isEnabled": _noop(returns="Bool", note="arbitrary driver-station input"),
    "wpilib.DSControlWord.isTest": _noop(returns="Bool", note="arbitrary driver-station input"),
    "wpilib.DSControlWord.isDSAttached": _noop(returns="Bool", note="arbitrary driver-station input"),
    "wpilib.Timer.__init__": {"kind": "external", "params": {}, "modifies": ["self.g_last"], "ensures": {"starts at 0": "self.g_last == 0"}},
    "wpilib.Timer.start": _noop(),
    "wpilib.Timer.get": {"kind": "external", "params": {}, "returns": "Real", "modifies": ["self.g_last"],
                         "ensures": {"elapsed time is non-decreasing": "result >= old(self.g_last) and self.g_last == result"},
                         "note": "Timer.get(): non-decreasing elapsed time"},
}

"""C18 - units.convert, MaxSonar drivers, REV analog pressure sensor.

convert() is verified against the recursive spec  convert(a, b, v) == from_root(b, to_root(a, v))  for unit chains of
any depth (three loop invariants); identity / round trip / path independence / linearity are lemmas over the spec
functions by induction on the chain depth, under the stated hypotheses on the unit lambdas; the built-in unit table is
read from the Unit(...) calls in the source.  Floats are reals."""
import ast
import z3
from pyvc.sorts import Ref, null, V, RefSort, vreal, vref, vbool
from pyvc.engine import Source

FILE = "robotpy_ext/common_drivers/units.py"
F_SONAR = "robotpy_ext/common_drivers/xl_max_sonar_ez.py"
F_PRESS = "robotpy_ext/common_drivers/pressure_sensors.py"
PROPS = ["C18"]

R = z3.RealSort()
# Unit fields are never written by the verified code: the spec functions read the initial heap arrays directly
BASE = z3.Const("H.Unit.base_unit.0!0", z3.ArraySort(Ref, Ref))
U2B = z3.Const("H.Unit.unit_to_base.0!0", z3.ArraySort(Ref, Ref))
B2U = z3.Const("H.Unit.base_to_unit.0!0", z3.ArraySort(Ref, Ref))
apply_f = z3.Function("fn_apply", Ref, R, R)
to_root_f = z3.Function("to_root", Ref, R, R)
from_root_f = z3.Function("from_root", Ref, R, R)
depth_f = z3.Function("unit_depth", Ref, z3.IntSort())
_u, _x = z3.Const("u", Ref), z3.Real("x")
base = lambda u: z3.Select(BASE, u)
AXIOMS = [
    ("to_root definition (recursion along base_unit)", z3.ForAll([_u, _x], to_root_f(_u, _x) == z3.If(base(_u) == null, _x, to_root_f(base(_u), apply_f(z3.Select(U2B, _u), _x))), patterns=[to_root_f(_u, _x)])),
    ("from_root definition (recursion along base_unit)", z3.ForAll([_u, _x], from_root_f(_u, _x) == z3.If(base(_u) == null, _x, apply_f(z3.Select(B2U, _u), from_root_f(base(_u), _x))), patterns=[from_root_f(_u, _x)])),
]
SPEC_FUNCS = {
    "to_root": lambda u, x: vreal(to_root_f(u.z, z3.ToReal(x.z) if x.z.sort() == z3.IntSort() else x.z)),
    "from_root": lambda u, x: vreal(from_root_f(u.z, x.z)),
    "fn_apply": lambda f, x: vreal(apply_f(f.z, x.z)),
}
GLOBALS = {"g_inch": "Ref:Unit", "g_centimeter": "Ref:Unit", "g_period": "Real", "g_volt": "Real", "g_avg_volt": "Real"}
CLASSES = {
    "UnitFn": {"fields": {}},
    "Unit": {"fields": {"base_unit": "Ref:Unit", "base_to_unit": "Ref:UnitFn", "unit_to_base": "Ref:UnitFn"}},
    "Counter": {"fields": {"g_channel": "Int", "g_semi_high": "Bool"}}, "AnalogIn": {"fields": {"g_channel": "Int"}},
    "DriverBase": {"fields": {}},
    "MaxSonarEZPulseWidth": {"bases": ["DriverBase"], "fields": {"output_units": "Ref:Unit", "counter": "Ref:Counter"}},
    "MaxSonarEZAnalog": {"bases": ["DriverBase"], "fields": {"output_units": "Ref:Unit", "analog": "Ref:AnalogIn"}},
    "REVAnalogPressureSensor": {"fields": {"sensor": "Ref:AnalogIn", "voltage_in": "Real", "?Vn": "Bool", "Vn": "Real"}},
}
_WF_UNITS = {"every non-root unit has its two conversion callables": "forall(u, Ref_Unit, implies(u is not None and u.base_unit is not None, u.unit_to_base is not None and u.base_to_unit is not None))"}
CONTRACTS = {
    "UnitFn.__call__": {"kind": "external", "params": {"x": "Real"}, "returns": "Real", "modifies": [],
                        "ensures": {"a pure function of its argument": "result == fn_apply(self, x)"}, "note": "a unit's conversion lambda: pure"},
    "convert": {
        "file": FILE, "params": {"source_unit": "Ref:Unit", "target_unit": "Ref:Unit", "value": "Real"}, "returns": "Real",
        "requires": dict({"units given": "source_unit is not None and target_unit is not None"}, **_WF_UNITS),
        "modifies": [], "local_sorts": {"unit_chain": "Seq[Ref:Unit]"},
        "loops": {
            0: {"inv": {"folding up preserves the root value": "current_unit is not None and to_root(current_unit, current_value) == to_root(source_unit, value)"},
                "local_sorts": {"current_value": "Real"}, "unconstrained_ok": ["next_unit"]},      # a per-iteration temporary (bound before use in every iteration)
            1: {"inv": {"root value fixed": "current_value == to_root(source_unit, value)",
                        "chain links: each element's base is the next one; the cursor is the base of the last": "current_unit is not None and len(unit_chain) >= 0 and "
                        "forall(j, Int, implies(0 <= j and j < len(unit_chain), unit_chain[j] is not None and unit_chain[j].base_unit is not None and "
                        "unit_chain[j].base_unit is (unit_chain[j + 1] if j + 1 < len(unit_chain) else current_unit))) and "
                        "(target_unit is (unit_chain[0] if len(unit_chain) > 0 else current_unit))"}},
            2: {"inv": {"unfolding: after i steps the value is from_root(<i-th unit from the end>, root value)":
                        "current_value == from_root((unit_chain[len(unit_chain) - __i] if __i > 0 else current_unit), to_root(source_unit, value))"}},
        },
        "ensures": {"C18.U1 convert(a, b, v) == from_root(b, to_root(a, v)) for unit chains of any depth": "result == from_root(target_unit, to_root(source_unit, value))"},
    },
    "units.convert": {"kind": "external", "params": {"source_unit": "Ref:Unit", "target_unit": "Ref:Unit", "value": "Real"}, "returns": "Real", "modifies": [],
                      "requires": dict({"units given": "source_unit is not None and target_unit is not None"}, **_WF_UNITS),
                      "ensures": {"contract of units.convert (verified in units.py)": "result == from_root(target_unit, to_root(source_unit, value))"},
                      "note": "same contract as 'convert' above, under the name the drivers call it by"},
    "Counter.getPeriod": {"kind": "external", "params": {}, "returns": "Real", "ensures": {"pulse width": "result == g_period"}, "note": "wpilib.Counter.getPeriod: arbitrary reading"},
    "AnalogIn.getVoltage": {"kind": "external", "params": {}, "returns": "Real", "ensures": {"voltage": "result == g_volt"}, "note": "wpilib.AnalogInput.getVoltage: arbitrary reading"},
    "AnalogIn.getAverageVoltage": {"kind": "external", "params": {}, "returns": "Real", "ensures": {"voltage": "result == g_avg_volt"}, "note": "arbitrary reading"},
    "Unit.__init__": {
        "file": FILE, "receivers": ["Unit"], "ctor": True, "params": {"base_unit": "Ref:Unit", "base_to_unit": "Ref:UnitFn", "unit_to_base": "Ref:UnitFn"},
        "modifies": ["self.base_unit", "self.base_to_unit", "self.unit_to_base"],
        "ensures": {"C18.U0 a unit records its base and its two conversion callables as given": "self.base_unit is base_unit and self.base_to_unit is base_to_unit and self.unit_to_base is unit_to_base"},
    },
    "sonar.new_counter": {"kind": "external", "params": {"channel": "Int"}, "returns": "Ref:Counter", "returns_fresh": True, "ensures": {"a counter on that channel, not yet in semi-period mode": "result.g_channel == channel and not result.g_semi_high"}, "note": "wpilib.Counter(channel)"},
    "sonar.new_analog": {"kind": "external", "params": {"channel": "Int"}, "returns": "Ref:AnalogIn", "returns_fresh": True, "ensures": {"an analog input on that channel": "result.g_channel == channel"}, "note": "wpilib.AnalogInput(channel)"},
    "Counter.setSemiPeriodMode": {"kind": "external", "params": {"highSemiPeriod": "Bool"}, "modifies": ["self.g_semi_high"], "ensures": {"semi-period mode on the requested level": "self.g_semi_high == highSemiPeriod"}, "note": "wpilib.Counter.setSemiPeriodMode"},
    "DriverBase.__init__": {"kind": "external", "receivers": ["DriverBase"], "params": {}, "modifies": [], "ensures": {}, "note": "driver_base.DriverBase.__init__: prints a warning for unverified drivers"},
    "MaxSonarEZPulseWidth.__init__": {
        "file": F_SONAR, "receivers": ["MaxSonarEZPulseWidth"], "ctor": True, "params": {"channel": "Int", "output_units": "Ref:Unit"},
        "modifies": ["self.output_units", "self.counter"],
        "ensures": {"C18.S0 the driver reads the HIGH pulse width (semi-period mode, high) of a counter on the given channel and reports in the requested unit":
                    "self.output_units is output_units and self.counter is not None and self.counter.g_channel == channel and self.counter.g_semi_high"},
    },
    "MaxSonarEZAnalog.__init__": {
        "file": F_SONAR, "receivers": ["MaxSonarEZAnalog"], "ctor": True, "params": {"channel": "Int", "output_units": "Ref:Unit"},
        "modifies": ["self.output_units", "self.analog"],
        "ensures": {"C18.S0a the driver reads the analog input on the given channel and reports in the requested unit": "self.output_units is output_units and self.analog is not None and self.analog.g_channel == channel"},
    },
    "REVAnalogPressureSensor.__init__": {
        "file": F_PRESS, "receivers": ["REVAnalogPressureSensor"], "ctor": True, "params": {"channel": "Int", "voltage_in": "Real"},
        "modifies": ["self.sensor", "self.voltage_in"],
        "ensures": {"C18.P0 the sensor reads the analog input on the given channel with the given supply voltage and is not calibrated yet": "self.sensor is not None and self.sensor.g_channel == channel and self.voltage_in == voltage_in and not has_attr(self, 'Vn')"},
    },
    "MaxSonarEZPulseWidth.get": {
        "file": F_SONAR, "receivers": ["MaxSonarEZPulseWidth"], "params": {}, "returns": "Real", "modifies": [],
        "requires": dict({"wired": "self.counter is not None and self.output_units is not None and g_inch is not None"}, **_WF_UNITS),
        "ensures": {"C18.S1 pulse width / 147 us inches, converted to the requested unit": "result == from_root(self.output_units, to_root(g_inch, g_period / 0.000147))"},
    },
    "MaxSonarEZAnalog.get": {
        "file": F_SONAR, "receivers": ["MaxSonarEZAnalog"], "params": {}, "returns": "Real", "modifies": [],
        "requires": dict({"wired": "self.analog is not None and self.output_units is not None and g_centimeter is not None"}, **_WF_UNITS),
        "ensures": {"C18.S2 voltage / 4.9 mV centimetres, converted to the requested unit": "result == from_root(self.output_units, to_root(g_centimeter, g_volt / 0.0049))"},
    },
    "REVAnalogPressureSensor.pressure.__get__": {
        "file": F_PRESS, "source": "REVAnalogPressureSensor.pressure", "receivers": ["REVAnalogPressureSensor"], "params": {}, "returns": "Real", "modifies": [],
        "requires": {"wired": "self.sensor is not None"}, "raises": False,
        "ensures": {"C18.P1 250*V/Vcc - 25 with V floored at 10 uV and Vcc the calibrated supply if calibrate() was called":
                    "implies((self.Vn if has_attr(self, 'Vn') else self.voltage_in) != 0, result == 250 * (max(g_avg_volt, 0.00001) / (self.Vn if has_attr(self, 'Vn') else self.voltage_in)) - 25)",
                    "C18.P2 a zero supply voltage yields 0 instead of an exception": "implies((self.Vn if has_attr(self, 'Vn') else self.voltage_in) == 0, result == 0)"},
    },
    "REVAnalogPressureSensor.calibrate": {
        "file": F_PRESS, "receivers": ["REVAnalogPressureSensor"], "params": {"known_pressure": "Real"},
        "requires": {"wired": "self.sensor is not None", "calibration pressure >= 0": "known_pressure >= 0"}, "raises": False,
        "modifies": ["self.Vn", "self.?Vn"],
        "ensures": {"C18.P3 calibrate(p) stores Vn = V / (0.004 p + 0.1) (V floored at 10 uV), whatever was calibrated before":
                    "has_attr(self, 'Vn') and self.Vn == max(g_avg_volt, 0.00001) / (0.004 * known_pressure + 0.1)"},
    },
}
NAMES = {"units.inch": ("global", "g_inch"), "units.centimeter": ("global", "g_centimeter")}
CALL_OVERRIDES = {("MaxSonarEZPulseWidth.__init__", "wpilib.Counter"): "sonar.new_counter", ("MaxSonarEZAnalog.__init__", "wpilib.AnalogInput"): "sonar.new_analog",
                  ("REVAnalogPressureSensor.__init__", "AnalogInput"): "sonar.new_analog"}


# ---------------------------------------------------------------- lemmas
def _unit_table():
    """{name: (base name or None, base_to_unit lambda ast, unit_to_base lambda ast)} from the module's Unit(...) calls"""
    src = Source(FILE)
    out = {}
    for n in src.tree.body:
        if isinstance(n, ast.Assign) and isinstance(n.value, ast.Call) and getattr(n.value.func, "id", None) == "Unit":
            kw = {k.arg: k.value for k in n.value.keywords}
            out[n.targets[0].id] = (None if isinstance(kw["base_unit"], ast.Constant) else kw["base_unit"].id, kw["base_to_unit"], kw["unit_to_base"])
    return out


def _lam(node, x):
    """real-arithmetic term of a `lambda x: <expr over x and constants>`"""
    from fractions import Fraction
    def ev(e):
        if isinstance(e, ast.Name):
            return x
        if isinstance(e, ast.Constant) and isinstance(e.value, (int, float)):
            fr = Fraction(repr(e.value)); return z3.Q(fr.numerator, fr.denominator)
        if isinstance(e, ast.BinOp):
            a, b = ev(e.left), ev(e.right)
            return {ast.Mult: lambda: a * b, ast.Div: lambda: a / b, ast.Add: lambda: a + b, ast.Sub: lambda: a - b}[type(e.op)]()
        raise ValueError(ast.dump(e))
    return ev(node.body)


def _lemmas():
    L = []
    a, b, c = z3.Consts("ua ub uc", Ref)
    v, w, k = z3.Reals("v w k")
    ax = [f for _, f in AXIOMS]
    inv1 = z3.ForAll([_u, _x], z3.Implies(base(_u) != null, apply_f(z3.Select(B2U, _u), apply_f(z3.Select(U2B, _u), _x)) == _x))
    inv2 = z3.ForAll([_u, _x], z3.Implies(base(_u) != null, apply_f(z3.Select(U2B, _u), apply_f(z3.Select(B2U, _u), _x)) == _x))
    B = base(a)
    # induction on the depth of unit a: hypothesis for its base B (all values), conclusion for a
    L.append(("C18.L1 identity: convert(a, a, v) == v  [induction step on chain depth; base case: a root unit]",
              ax + [inv1, z3.Implies(B != null, z3.ForAll([_x], from_root_f(B, to_root_f(B, _x)) == _x))], from_root_f(a, to_root_f(a, v)) == v))
    L.append(("C18.L2 to_root(b, from_root(b, r)) == r  [induction step; the other inverse direction]",
              ax + [inv2, z3.Implies(B != null, z3.ForAll([_x], to_root_f(B, from_root_f(B, _x)) == _x))], to_root_f(a, from_root_f(a, v)) == v))
    l2 = z3.ForAll([_u, _x], to_root_f(_u, from_root_f(_u, _x)) == _x)
    l1 = z3.ForAll([_u, _x], from_root_f(_u, to_root_f(_u, _x)) == _x)
    conv = lambda s, t, val: from_root_f(t, to_root_f(s, val))
    L.append(("C18.L3 round trip: convert(b, a, convert(a, b, v)) == v  [from L1, L2]", [l1, l2], conv(b, a, conv(a, b, v)) == v))
    L.append(("C18.L4 path independence: convert(b, c, convert(a, b, v)) == convert(a, c, v)  [from L2]", [l2], conv(b, c, conv(a, b, v)) == conv(a, c, v)))
    # linearity, for units whose lambdas are linear (x*k, x/k)
    lin_u = z3.ForAll([_u, _x, w], z3.Implies(base(_u) != null, z3.And(
        apply_f(z3.Select(U2B, _u), _x + w) == apply_f(z3.Select(U2B, _u), _x) + apply_f(z3.Select(U2B, _u), w),
        apply_f(z3.Select(B2U, _u), _x + w) == apply_f(z3.Select(B2U, _u), _x) + apply_f(z3.Select(B2U, _u), w))))
    # additivity: induction step with the hypotheses instantiated at the terms that occur (no arithmetic triggers needed)
    ua, ub2 = z3.Select(U2B, a), z3.Select(B2U, a)
    L.append(("C18.L5 additivity of to_root for additive unit lambdas  [induction step; hypothesis for the base unit at the image points]",
              ax + [z3.Implies(B != null, apply_f(ua, v + w) == apply_f(ua, v) + apply_f(ua, w)),
                    z3.Implies(B != null, to_root_f(B, apply_f(ua, v) + apply_f(ua, w)) == to_root_f(B, apply_f(ua, v)) + to_root_f(B, apply_f(ua, w)))],
              to_root_f(a, v + w) == to_root_f(a, v) + to_root_f(a, w)))
    L.append(("C18.L6 additivity of from_root for additive unit lambdas  [induction step]",
              ax + [z3.Implies(B != null, from_root_f(B, v + w) == from_root_f(B, v) + from_root_f(B, w)),
                    z3.Implies(B != null, apply_f(ub2, from_root_f(B, v) + from_root_f(B, w)) == apply_f(ub2, from_root_f(B, v)) + apply_f(ub2, from_root_f(B, w)))],
              from_root_f(a, v + w) == from_root_f(a, v) + from_root_f(a, w)))
    # the built-in table
    try:
        tab = _unit_table()
    except Exception as e:
        return L + [("C18.T0 the unit table can be read from the source", [], z3.BoolVal(False))]
    x = z3.Real("x")
    for name, (bname, b2u, u2b) in tab.items():
        if bname is None:
            continue
        L.append((f"C18.T1 {name}: base_to_unit and unit_to_base are mutually inverse (over the reals)", [], z3.And(_lam(b2u, _lam(u2b, x)) == x, _lam(u2b, _lam(b2u, x)) == x)))
        L.append((f"C18.T2 {name}: both lambdas are linear", [], z3.And(_lam(u2b, x + w) == _lam(u2b, x) + _lam(u2b, w), _lam(u2b, k * x) == k * _lam(u2b, x),
                                                                    _lam(b2u, x + w) == _lam(b2u, x) + _lam(b2u, w))))
    def has(n, b):
        return n in tab and tab[n][0] == b
    L.append(("C18.T3 100 cm per metre", [], z3.And(z3.BoolVal(has("centimeter", "meter")), _lam(tab["centimeter"][1], z3.RealVal(1)) == 100) if "centimeter" in tab else z3.BoolVal(False)))
    L.append(("C18.T4 0.3048 m per foot", [], z3.And(z3.BoolVal(has("foot", "meter")), _lam(tab["foot"][2], z3.RealVal(1)) == z3.Q(3048, 10000)) if "foot" in tab else z3.BoolVal(False)))
    L.append(("C18.T5 12 inches per foot", [], z3.And(z3.BoolVal(has("inch", "foot")), _lam(tab["inch"][1], z3.RealVal(1)) == 12) if "inch" in tab else z3.BoolVal(False)))
    L.append(("C18.T6 meter is the root unit", [], z3.BoolVal("meter" in tab and tab["meter"][0] is None)))
    # pressure: calibrate then read at the same voltage
    Vo, p = z3.Reals("Vo p")
    L.append(("C18.P4 after calibrate(p) the reading at the calibration voltage is p  [C18.P1 + C18.P3; nonlinear real arithmetic]",
              [Vo > 0, p >= 0], 250 * (Vo / (Vo / (z3.Q(4, 1000) * p + z3.Q(1, 10)))) - 25 == p))
    L.append(("C18.P5 calibration never divides by zero for p >= 0 and the calibrated supply is positive", [Vo > 0, p >= 0], z3.And(z3.Q(4, 1000) * p + z3.Q(1, 10) > 0, Vo / (z3.Q(4, 1000) * p + z3.Q(1, 10)) > 0)))
    return L


LEMMAS = _lemmas()
ASSUMPTIONS = [
    "floats are reals ('up to floating-point rounding' in the statement)",
    "unit chains are acyclic (termination is not claimed); identity/round-trip/path-independence assume each user-defined unit's two callables are mutually inverse, "
    "linearity assumes they are additive - both are *checked* for the four built-in units (lemmas C18.T1/T2 over the lambdas read from the source)",
    "the induction schema on chain depth combining the step lemmas C18.L1/L2/L5/L6 (base case: root unit, where to_root/from_root are the identity by definition)",
    "units.inch / units.centimeter denote the module-level unit objects (globals g_inch / g_centimeter)",
]

"""C15 - robotpy_ext.autonomous.StatefulAutonomous (stateful_autonomous.py).

State records are class-level `_State` objects (modelled as class SAState) shared by all instances; the
contracts quantify over one instance.  tm values passed to on_iteration are non-decreasing within a period
(ghost g_last_tm, reset by on_enable)."""
import ast
import z3
from pyvc.sorts import vref, vbool, vreal, Ref, V, RefSort

FILE = "robotpy_ext/autonomous/stateful_autonomous.py"
PROPS = ["C15"]
SA, ST = "StatefulAutonomous", "SAState"
BIG = "4294967295"

_state_of = z3.Function("sa_state_named", z3.StringSort(), Ref)
_is_state = z3.Function("sa_is_state_name", z3.StringSort(), z3.BoolSort())
_dash = z3.Function("dashboard_value", z3.StringSort(), Ref)
_num = z3.Function("numeric_value", Ref, z3.RealSort())
SPEC_FUNCS = {
    "member": lambda n: vref(_member(n.z), ST), "STATE_CLS": lambda: vref(_STATE_CLS, "PyObj"),
    "T_BOOL": lambda: vref(z3.Const("class.builtins.bool", Ref), "PyObj"), "T_INT": lambda: vref(z3.Const("class.builtins.int", Ref), "PyObj"),
    "T_FLOAT": lambda: vref(z3.Const("class.builtins.float", Ref), "PyObj"), "T_STR": lambda: vref(z3.Const("class.builtins.str", Ref), "PyObj"),
    "state_of": lambda n: vref(_state_of(n.z), ST),
    "is_state": lambda n: vbool(_is_state(n.z)),
    "dash": lambda n: vref(_dash(n.z), "PyObj"),
    "num": lambda r: vreal(_num(r.z)),
}
GLOBALS = {"g_cdir": "Seq[Str]"}
_member = z3.Function("sa_class_member", z3.StringSort(), Ref)
_STATE_CLS = z3.Const("class._State", Ref)
MACROS = {
    "is_member_state(n)": "member(n) is not None and isinstance(member(n), STATE_CLS())",
    "sdkey(m, name, pre)": "(m.MODE_NAME + '\\\\' + name) if pre else name",
    "sdtyped(v)": "isinstance(v, T_BOOL()) or isinstance(v, T_INT()) or isinstance(v, T_FLOAT()) or isinstance(v, T_STR())",
    "sdkind(v)": "0 if isinstance(v, T_BOOL()) else (1 if (isinstance(v, T_INT()) or isinstance(v, T_FLOAT())) else 2)",
    "CUR(m)": "m._StatefulAutonomous__state",
    "timed(s)": "has_attr(s, 'next_state')",
    "expired0(m, tm)": "old(CUR(m)) is not None and old(old(CUR(m)).ran) and old(old(CUR(m)).expires) < tm",
}
CLASSES = {
    "PyObj": {"fields": {}},
    ST: {"fields": {"name": "Str", "ran": "Bool", "expires": "Real", "start_time": "Real", "?next_state": "Bool",
                    "next_state": "Opt[Str]", "first": "Bool", "?duration": "Bool", "duration": "Ref:PyObj", "description": "Opt[Str]", "serial": "Int"}},
    SA: {
        "fields": {"_StatefulAutonomous__state": f"Ref:{ST}", "_StatefulAutonomous__done": "Bool", "_StatefulAutonomous__built": "Bool",
                   "_StatefulAutonomous__first": "Str", "_StatefulAutonomous__sd_args": "Seq[(Str,Str,Ref:SDGetter,Ref:PyObj)]",
                   "battery_voltage": "Real", "g_attrs": "Map[Str,Ref:PyObj]", "g_last_tm": "Real", "g_runs": "Int", "?MODE_NAME": "Bool", "MODE_NAME": "Str", "?initialize": "Bool", "_StatefulAutonomous__table": "Ref:SDTable", "_StatefulAutonomous__tunables": "Seq[Str]"},
        "class_level": ["MODE_NAME", "initialize"],
        "alias": {"st": "CUR(self)", "first": "self._StatefulAutonomous__first", "sdargs": "self._StatefulAutonomous__sd_args"},
        "wf": {
            "W1 the first state exists": "is_state(first)",
            "W2 state names denote real state records carrying their own name": f"forall(n, Str, implies(is_state(n), state_of(n) is not None and state_of(n).name == n))",
            "W3 next_state links of timed states name existing states": f"forall(s, Ref_{ST}, implies(timed(s) and s.next_state is not None, is_state(unwrap(s.next_state))))",
            "W4 exactly the timed states have a '<name>_duration' variable, registered with add_prefix by __build_states; durations are >= 0":
                f"forall(s, Ref_{ST}, implies(has(self.g_attrs, s.name + '_duration'), num(self.g_attrs[s.name + '_duration']) >= 0))",
            "W6 registered getters are callables": "forall(j, Int, implies(0 <= j and j < len(sdargs), sdargs[j][2] is not None))",
            "W7 only timed states have a '<name>_duration' variable": f"forall(s, Ref_{ST}, implies(has(self.g_attrs, s.name + '_duration'), timed(s)))",
            "W5 registered variable names are pairwise distinct": "forall(a, Int, forall(b, Int, implies(0 <= a and a < b and b < len(sdargs), sdargs[a][0] != sdargs[b][0])))",
        },
        "invariant": {
            "S1 the current state's entry time is not after the last tm seen": "implies(st is not None and st.ran, 0 <= st.start_time and st.start_time <= self.g_last_tm and st.start_time <= st.expires)",
            "S2 an untimed state that ran never expires": f"implies(st is not None and st.ran and not timed(st), st.expires >= {BIG})",
            "S3 tm is non-negative": "self.g_last_tm >= 0",
        },
    },
    "SDGetter": {"fields": {"table": "Ref:SDTable", "kind": "Int"},       # kind: 0 getBoolean, 1 getNumber, 2 getString
                 "callable_of": {"methods": {"SDTable.getBoolean": 0, "SDTable.getNumber": 1, "SDTable.getString": 2}, "link": "table", "tag": "kind"}},
    "SDTable": {"fields": {"g_put": "Map[Str,Ref:PyObj]", "g_name": "Str"}}, "SDInst": {"fields": {}},
}
_CB_MOD = [f"{SA}._StatefulAutonomous__state[*]", f"{ST}.ran[*]", f"{SA}.g_runs[*]"]
CONTRACTS = {
    "sa.class_attr": {
        "kind": "external", "params": {"cls": "py", "name": "Str"}, "returns": f"Ref:{ST}", "raises": "AttributeError",
        "ensures": {"getattr(cls, name) is the state record of that name": "is_state(name) and result is state_of(name)"},
        "ensures_raise": {"AttributeError only for names that are not attributes": "not is_state(name)"},
        "note": "getattr(self.__class__, name): class attribute lookup (reflection)",
    },
    "sa.inst_attr": {
        "kind": "external", "params": {"obj": f"Ref:{SA}", "name": "Str", "default": "Opt[Real]"}, "returns": "Opt[Real]",
        "ensures": {"instance attribute set by on_enable from the dashboard, else the default (whatever the caller passes, None included)":
                    "(result is not None and unwrap(result) == num(obj.g_attrs[name])) if has(obj.g_attrs, name) else (result == default)"},
        "note": "getattr(self, '<state>_duration', 0xFFFFFFFF) reads the attribute written by on_enable's setattr loop",
    },
    "sa.setattr": {
        "kind": "external", "params": {"obj": f"Ref:{SA}", "name": "Str", "val": "Ref:PyObj"}, "modifies": ["obj.g_attrs"],
        "ensures": {"setattr(obj, name, val) stores the attribute": "has(obj.g_attrs, name) and obj.g_attrs[name] is val",
                    "other attributes untouched": "forall(k, Str, implies(k != name, has(obj.g_attrs, k) == old(has(obj.g_attrs, k)) and obj.g_attrs[k] is old(obj.g_attrs[k])))"},
        "note": "setattr on the mode instance (instance __dict__ modelled as the ghost map g_attrs)",
    },
    "SDGetter.__call__": {
        "kind": "external", "params": {"sd_name": "Str", "default": "Ref:PyObj"}, "returns": "Ref:PyObj",
        "ensures": {"the dashboard value under that key": "result is dash(sd_name)"},
        "note": "table.getNumber/getBoolean/getString(sd_name, default): ntcore read (assumed; the dashboard content is a function of the key during on_enable)",
    },
    "SDTable.putBoolean": {"kind": "external", "params": {"key": "Str", "value": "Ref:PyObj"}, "modifies": ["self.g_put"],
                          "ensures": {"published": "has(self.g_put, key) and self.g_put[key] is value and forall(k, Str, implies(k != key, has(self.g_put, k) == old(has(self.g_put, k)) and self.g_put[k] is old(self.g_put[k])))"}, "note": "ntcore NetworkTable.putBoolean"},
    "SDTable.getBoolean": {"kind": "external", "params": {"key": "Str", "default": "Ref:PyObj"}, "returns": "Ref:PyObj", "ensures": {"the dashboard value": "result is dash(key)"}, "note": "ntcore NetworkTable.getBoolean"},
    "SDTable.putNumber": {"kind": "external", "params": {"key": "Str", "value": "Ref:PyObj"}, "modifies": ["self.g_put"],
                          "ensures": {"published": "has(self.g_put, key) and self.g_put[key] is value and forall(k, Str, implies(k != key, has(self.g_put, k) == old(has(self.g_put, k)) and self.g_put[k] is old(self.g_put[k])))"}, "note": "ntcore NetworkTable.putNumber"},
    "SDTable.getNumber": {"kind": "external", "params": {"key": "Str", "default": "Ref:PyObj"}, "returns": "Ref:PyObj", "ensures": {"the dashboard value": "result is dash(key)"}, "note": "ntcore NetworkTable.getNumber"},
    "SDTable.putString": {"kind": "external", "params": {"key": "Str", "value": "Ref:PyObj"}, "modifies": ["self.g_put"],
                          "ensures": {"published": "has(self.g_put, key) and self.g_put[key] is value and forall(k, Str, implies(k != key, has(self.g_put, k) == old(has(self.g_put, k)) and self.g_put[k] is old(self.g_put[k])))"}, "note": "ntcore NetworkTable.putString"},
    "SDTable.getString": {"kind": "external", "params": {"key": "Str", "default": "Ref:PyObj"}, "returns": "Ref:PyObj", "ensures": {"the dashboard value": "result is dash(key)"}, "note": "ntcore NetworkTable.getString"},
    f"{SA}._StatefulAutonomous__register_sd_var_internal": {
        "source": f"{SA}.__register_sd_var_internal", "receivers": [SA], "params": {"name": "Str", "default": "Ref:PyObj", "add_prefix": "Bool", "readback": "Bool"}, "returns": "Bool", "raises": "ValueError",
        "requires": {"constructed far enough": "self._StatefulAutonomous__table is not None and has_attr(self, 'MODE_NAME')"},
        "modifies": ["self._StatefulAutonomous__sd_args", "self._StatefulAutonomous__table.g_put", "SDGetter.table[*]", "SDGetter.kind[*]"],
        "ensures": {
            "C15.V1 the variable is published with its default under '<MODE_NAME>\\<name>' (add_prefix) or '<name>'":
                "has(self._StatefulAutonomous__table.g_put, sdkey(self, name, add_prefix)) and self._StatefulAutonomous__table.g_put[sdkey(self, name, add_prefix)] is default",
            "C15.V2 with readback it is registered for on_enable as (attribute name, that key, the getter matching the default's type, default), after the entries registered before":
                "(len(sdargs) == old(len(sdargs)) + 1 and sdargs[len(sdargs) - 1][0] == name and sdargs[len(sdargs) - 1][1] == sdkey(self, name, add_prefix) and sdargs[len(sdargs) - 1][3] is default and "
                "sdargs[len(sdargs) - 1][2] is not None and sdargs[len(sdargs) - 1][2].table is self._StatefulAutonomous__table and sdargs[len(sdargs) - 1][2].kind == sdkind(default)) if readback else (len(sdargs) == old(len(sdargs)))",
            "earlier registrations are kept": "forall(j, Int, implies(0 <= j and j < old(len(sdargs)), sdargs[j][0] == old(sdargs[j][0]) and sdargs[j][1] == old(sdargs[j][1]) and sdargs[j][2] is old(sdargs[j][2]) and sdargs[j][3] is old(sdargs[j][3])))",
            "number?": "result == (not isinstance(default, T_BOOL()) and (isinstance(default, T_INT()) or isinstance(default, T_FLOAT())))",
            "accepted": "not (' ' in name) and sdtyped(default)"},
        "ensures_raise": {"C15.V3 rejected exactly for a name with a space or a default that is not bool / int / float / str": "(' ' in name) or not sdtyped(default)",
                          "nothing registered": "len(sdargs) == old(len(sdargs))"},
    },
    "sa.dir": {"kind": "external", "params": {"cls": "py"}, "returns": "Seq[Str]", "pure_result": "g_cdir",
               "ensures": {"attribute names, each once": "len(result) >= 0 and forall(a, Int, forall(b, Int, implies(0 <= a and a < b and b < len(result), result[a] != result[b])))"}, "note": "dir(type(self)) (reflection)"},
    "sa.member": {"kind": "external", "params": {"cls": "py", "name": "Str"}, "returns": f"Ref:{ST}", "ensures": {"class attribute": "result is member(name)"}, "note": "getattr(cls, name): any class attribute; only _State instances are used"},
    "sa.sorted_items": {"kind": "external", "params": {"d": "py"}, "returns": "py", "ensures": {}, "note": "sorted(states.items()): only passed on to the dashboard lists"},
    "sa.names_of": {"kind": "external", "params": {"xs": "py"}, "returns": "py", "ensures": {}, "note": "[name for _, (name, desc) in sorted_states] (list comprehension: dashboard list of state names in definition order)"},
    "sa.descs_of": {"kind": "external", "params": {"xs": "py"}, "returns": "py", "ensures": {}, "note": "[desc for _, (name, desc) in sorted_states]"},
    "SDTable.putStringArray": {"kind": "external", "params": {"key": "Str", "value": "py"}, "ensures": {}, "note": "ntcore"},
    "ntcore.NetworkTableInstance.getDefault": {"kind": "external", "params": {}, "returns": "Ref:SDInst", "ensures": {"an instance": "result is not None"}, "note": "ntcore"},
    "SDInst.getTable": {"kind": "external", "params": {"name": "Str"}, "returns": "Ref:SDTable", "ensures": {"the table of that name": "result is not None and result.g_name == name"}, "note": "ntcore getTable"},
    f"{SA}.initialize": {"kind": "callback", "params": {}, "raises": True, "modifies": [f"{SA}._StatefulAutonomous__sd_args[*]", "SDTable.g_put[*]", "SDGetter.table[*]", "SDGetter.kind[*]", f"{SA}._StatefulAutonomous__tunables[*]", f"{SA}.g_attrs[*]"],
                         "ensures": {"user hook: may register more variables (register_sd_var keeps earlier registrations)":
                                     "len(self._StatefulAutonomous__sd_args) >= old(len(self._StatefulAutonomous__sd_args)) and forall(j, Int, implies(0 <= j and j < old(len(self._StatefulAutonomous__sd_args)), "
                                     "self._StatefulAutonomous__sd_args[j][0] == old(self._StatefulAutonomous__sd_args[j][0]) and self._StatefulAutonomous__sd_args[j][1] == old(self._StatefulAutonomous__sd_args[j][1])))"},
                         "note": "optional user hook initialize(): typically calls register_sd_var"},
    f"{SA}.__init__": {
        "receivers": [SA], "ctor": True, "no_wf": True, "params": {"components": "Opt[Map[Str,Ref:PyObj]]"}, "raises": True, "prefer": "cvc5",
        "requires": {"a proper dict (or None)": "implies(components is not None, wf_map(unwrap(components)))"},
        "modifies": [f"{SA}.g_attrs[*]", "self._StatefulAutonomous__table", f"{SA}._StatefulAutonomous__sd_args[*]", "self._StatefulAutonomous__first", "self._StatefulAutonomous__built",
                     "SDTable.g_put[*]", "SDGetter.table[*]", "SDGetter.kind[*]", f"{SA}._StatefulAutonomous__tunables[*]"],
        "loops": {0: {"inv": {"attributes so far": "True"}}},
        "ensures": {"C15.C1 a constructed mode has MODE_NAME, talks to the 'SmartDashboard' table, is built (exactly one first state) and every timed state's '<state>_duration' is registered under '<MODE_NAME>\\<state>_duration'":
                    "has_attr(self, 'MODE_NAME') and self._StatefulAutonomous__table is not None and self._StatefulAutonomous__table.g_name == 'SmartDashboard' and self._StatefulAutonomous__built and "
                    "forall(j, Int, implies(0 <= j and j < len(g_cdir) and is_member_state(g_cdir[j]) and has_attr(member(g_cdir[j]), 'duration'), "
                    "exists(a, Int, 0 <= a and a < len(sdargs) and sdargs[a][0] == member(g_cdir[j]).name + '_duration' and sdargs[a][1] == sdkey(self, member(g_cdir[j]).name + '_duration', True))))"},
        "ensures_raise": {"construction fails for a missing MODE_NAME, a malformed state set, or a failing initialize()": "True"},
    },
    "sa.tunable_label": {"kind": "external", "params": {"name": "Str", "vmin": "Real", "vmax": "Real"}, "returns": "Str", "ensures": {}, "note": "the f-string '<name>|<vmin:0.3f>|<vmax:0.3f>' (number formatting: label for the dashboard's tuning widget)"},
    f"{SA}.register_sd_var": {
        "receivers": [SA], "params": {"name": "Str", "default": "Ref:PyObj", "add_prefix": "Bool", "vmin": "Real", "vmax": "Real"}, "raises": "ValueError", "no_wf": True,
        "requires": {"constructed far enough": "self._StatefulAutonomous__table is not None and has_attr(self, 'MODE_NAME') and len(sdargs) >= 0 and len(self._StatefulAutonomous__tunables) >= 0"},
        "modifies": [f"{SA}._StatefulAutonomous__sd_args[*]", "SDTable.g_put[*]", "SDGetter.table[*]", "SDGetter.kind[*]", "self._StatefulAutonomous__tunables"],
        "ensures": {"C15.V4 a user variable is published and registered for on_enable exactly like a '<state>_duration' (key '<MODE_NAME>\\<name>' with add_prefix, '<name>' without)":
                    "len(sdargs) == old(len(sdargs)) + 1 and sdargs[len(sdargs) - 1][0] == name and sdargs[len(sdargs) - 1][1] == sdkey(self, name, add_prefix) and sdargs[len(sdargs) - 1][3] is default and "
                    "forall(j, Int, implies(0 <= j and j < old(len(sdargs)), sdargs[j][0] == old(sdargs[j][0]) and sdargs[j][1] == old(sdargs[j][1]) and sdargs[j][2] is old(sdargs[j][2]) and sdargs[j][3] is old(sdargs[j][3])))",
                    "only prefixed variables are listed as tunables": "len(self._StatefulAutonomous__tunables) == old(len(self._StatefulAutonomous__tunables)) + (1 if add_prefix else 0)"},
        "ensures_raise": {"rejected like any registration": "(' ' in name) or not sdtyped(default)"},
    },
    f"{SA}._StatefulAutonomous__build_states": {
        "source": f"{SA}.__build_states", "receivers": [SA], "params": {}, "raises": "ValueError", "no_wf": True, "prefer": "cvc5",
        "requires": {"constructed far enough (__init__ checked MODE_NAME, created the table and the empty registration list)": "self._StatefulAutonomous__table is not None and has_attr(self, 'MODE_NAME') and len(sdargs) >= 0"},
        "local_sorts": {"states": "Map[Int,(Str,Opt[Str])]"},
        "modifies": ["self._StatefulAutonomous__first", "self._StatefulAutonomous__built", f"{SA}._StatefulAutonomous__sd_args[*]", "SDTable.g_put[*]", "SDGetter.table[*]", "SDGetter.kind[*]"],
        "loops": {0: {"inv": {
            "C15.B1 (so far) at most one state marked first was seen, and it is remembered": "(has_first == exists(j, Int, 0 <= j and j < __i and is_member_state(g_cdir[j]) and member(g_cdir[j]).first)) and "
                "forall(a, Int, forall(b, Int, implies(0 <= a and a < b and b < __i and is_member_state(g_cdir[a]) and is_member_state(g_cdir[b]), not (member(g_cdir[a]).first and member(g_cdir[b]).first)))) and "
                "implies(has_first, exists(j, Int, 0 <= j and j < __i and is_member_state(g_cdir[j]) and member(g_cdir[j]).first and self._StatefulAutonomous__first == g_cdir[j]))",
            "C15.B2 (so far) every state seen that declares a duration has its '<state>_duration' variable registered for on_enable under '<MODE_NAME>\\<state>_duration'":
                "forall(j, Int, implies(0 <= j and j < __i and is_member_state(g_cdir[j]) and has_attr(member(g_cdir[j]), 'duration'), "
                "exists(a, Int, 0 <= a and a < len(sdargs) and sdargs[a][0] == member(g_cdir[j]).name + '_duration' and sdargs[a][1] == sdkey(self, member(g_cdir[j]).name + '_duration', True) and sdargs[a][2] is not None)))",
            "registrations only grow": "len(sdargs) >= at_loop_entry(len(sdargs)) and at_loop_entry(len(sdargs)) >= 0",
        }}},
        "ensures": {
            "C15.B1 exactly one state is marked first, and on_enable will start from it": "self._StatefulAutonomous__built and exists(j, Int, 0 <= j and j < len(g_cdir) and is_member_state(g_cdir[j]) and member(g_cdir[j]).first and self._StatefulAutonomous__first == g_cdir[j]) and "
                "forall(a, Int, forall(b, Int, implies(0 <= a and a < b and b < len(g_cdir) and is_member_state(g_cdir[a]) and is_member_state(g_cdir[b]), not (member(g_cdir[a]).first and member(g_cdir[b]).first))))",
            "C15.B2 every state that declares a duration has its '<state>_duration' variable registered for on_enable under '<MODE_NAME>\\<state>_duration'":
                "forall(j, Int, implies(0 <= j and j < len(g_cdir) and is_member_state(g_cdir[j]) and has_attr(member(g_cdir[j]), 'duration'), "
                "exists(a, Int, 0 <= a and a < len(sdargs) and sdargs[a][0] == member(g_cdir[j]).name + '_duration' and sdargs[a][1] == sdkey(self, member(g_cdir[j]).name + '_duration', True))))"},
        "ensures_raise": {"C15.B3 ValueError for no first state, several first states, or a duration that is not a number/bool/str": "True"},
    },
    "wpilib.DriverStation.getBatteryVoltage": {"kind": "external", "params": {}, "returns": "Real", "ensures": {}},
    f"{ST}.run": {
        "kind": "callback", "params": {"sa": f"Ref:{SA}", "tm": "Real", "state_tm": "Real", "initial_call": "Bool"},
        "raises": True, "assert_inv_of": ["sa"], "assume_inv_of": ["sa"], "modifies": _CB_MOD,
        "site_asserts": {
            "C15.E1 the current state runs on every iteration until tm exceeds its expiry, and a state that was just entered runs once before it can expire":
                "implies(old(CUR(sa)) is not None and not expired0(sa, tm), self is old(CUR(sa)) and initial_call == (not old(self.ran)))",
            "C15.E2 on expiry the successor named by next_state takes over and its clock starts at the predecessor's expiry":
                "implies(expired0(sa, tm), old(CUR(sa)).next_state is not None and self is state_of(unwrap(old(CUR(sa)).next_state)) and initial_call and self.start_time == old(old(CUR(sa)).expires))",
            "C15.E3 state_tm is the time since entry and never negative": "state_tm == tm - self.start_time and state_tm >= 0",
            "C15.E4 on entry the expiry is start_time + the '<state>_duration' value read at on_enable (none: never expires)":
                f"implies(initial_call, self.expires == self.start_time + (num(sa.g_attrs[self.name + '_duration']) if has(sa.g_attrs, self.name + '_duration') else {BIG}))",
            "C15.E6 initial_call marks exactly the first call after an entry": "initial_call == (not (self is old(CUR(sa)) and old(self.ran) and not expired0(sa, tm))) and self.ran",
            "C15.E7 the state that runs is the current state": "self is CUR(sa)",
        },
        "ensures": {"counted": "sa.g_runs >= old(sa.g_runs) + 1", "tm bookkeeping untouched": "sa.g_last_tm == old(sa.g_last_tm)"},
        "note": "user state function: may call next_state()/done() on the mode (havoc under the invariant)",
    },
    f"{SA}.next_state": {
        "receivers": [SA], "inv": True, "params": {"name": "Opt[Str]"}, "raises": "AttributeError",
        "modifies": ["self._StatefulAutonomous__state", f"{ST}.ran[*]"],
        "ensures": {"C15.N1 the named state becomes current as a fresh entry (None: no state)":
                    "(st is None) if name is None else (st is state_of(unwrap(name)) and not st.ran)",
                    "only the target becomes fresh": f"forall(s, Ref_{ST}, implies(not (s is st) and s is not None, s.ran == old(s.ran)))"},
        "ensures_raise": {"only unknown names raise": "name is not None and not is_state(unwrap(name))"},
    },
    f"{SA}.done": {
        "receivers": [SA], "inv": True, "params": {}, "modifies": ["self._StatefulAutonomous__state", f"{ST}.ran[*]"],
        "ensures": {"C15.D1 done() leaves no current state": "st is None", "flags untouched": f"forall(s, Ref_{ST}, implies(s is not None, s.ran == old(s.ran)))"},
    },
    f"{SA}._validate": {"receivers": [SA], "inv": True, "params": {}, "modifies": [], "ensures": {"a hook that does nothing": "True"}},
    f"{SA}.on_disable": {"receivers": [SA], "inv": True, "params": {}, "modifies": [], "ensures": {"C15.X1 on_disable() itself changes nothing (the next on_enable() re-initialises the run)": "st is old(st)"}},
    f"{SA}.on_enable": {
        "receivers": [SA], "inv": True, "inv_on_raise": False, "params": {}, "raises": "ValueError",
        "requires": {"constructed": "self._StatefulAutonomous__built"},
        "modifies": ["self.battery_voltage", f"{SA}.g_attrs[*]", "self._StatefulAutonomous__state", "self._StatefulAutonomous__done", f"{ST}.ran[*]", "self.g_last_tm"],
        "ghost_exit": {"self.g_last_tm": "0"},
        "loops": {0: {"inv": {"attributes read so far hold the dashboard values": "forall(j, Int, implies(0 <= j and j < __i, has(self.g_attrs, sdargs[j][0]) and self.g_attrs[sdargs[j][0]] is dash(sdargs[j][1])))"}}},
        "ensures": {"C15.O1 on_enable starts from the first state as a fresh entry, whatever happened before": "st is state_of(first) and not st.ran and not self._StatefulAutonomous__done",
                    "C15.O2 every registered variable (the '<state>_duration's among them) holds the dashboard value read now":
                        "forall(j, Int, implies(0 <= j and j < len(sdargs), has(self.g_attrs, sdargs[j][0]) and self.g_attrs[sdargs[j][0]] is dash(sdargs[j][1])))"},
    },
    f"{SA}.on_iteration": {
        "receivers": [SA], "inv": True, "inv_on_raise": False, "params": {"tm": "Real"}, "raises": True,
        "requires": {"tm does not go backwards within a period": "tm >= self.g_last_tm", f"tm below 2**32-1": f"tm < {BIG}"},
        "ghost_entry": {"self.g_last_tm": "tm"},
        "modifies": _CB_MOD + ["self._StatefulAutonomous__done", f"{ST}.expires[*]", f"{ST}.start_time[*]", "self.g_last_tm"],
        "ensures": {"C15.I1 with no current state nothing runs": "implies(old(st) is None, self.g_runs == old(self.g_runs) and st is None)",
                    "C15.I2 when the last state has expired nothing runs and no state remains": "implies(old(st) is not None and old(st.ran) and old(st.expires) < tm and old(st).next_state is None, self.g_runs == old(self.g_runs) and st is None)"},
    },
}
NAMES = {"dir": ("contract", "sa.dir")}
CALL_OVERRIDES = {(f"{SA}.__build_states", "sorted"): "sa.sorted_items"}
EXPR_OVERRIDES = {(f"{SA}.register_sd_var", "f'{name}|{vmin:0.3f}|{vmax:0.3f}'"): ("sa.tunable_label", ["name", "vmin", "vmax"]),
                  (f"{SA}.__build_states", "[name for _, (name, desc) in sorted_states]"): ("sa.names_of", ["sorted_states"]),
                  (f"{SA}.__build_states", "[desc for _, (name, desc) in sorted_states]"): ("sa.descs_of", ["sorted_states"])}
DYN_GETATTR = {(f"{SA}.__init__", "setattr"): "sa.setattr", (f"{SA}.__build_states", "getattr"): "sa.member", (f"{SA}.next_state", "getattr"): "sa.class_attr", (f"{SA}.on_iteration", "getattr"): "sa.inst_attr",
               (f"{SA}.on_enable", "setattr"): "sa.setattr"}


def _run_is_last(ctx):
    fn, _ = ctx.source(FILE).find(f"{SA}.on_iteration")
    last = fn.body[-1]
    ok = isinstance(last, ast.Expr) and isinstance(last.value, ast.Call) and isinstance(last.value.func, ast.Attribute) and last.value.func.attr == "run"
    return ok, f"last statement of on_iteration: {ast.unparse(last)[:80]}"


STRUCTURAL = [("C15.E5 the state function call is the last thing on_iteration does (next_state()/done() take effect from the next iteration)", _run_is_last)]
ASSUMPTIONS = [
    "state records are class-level objects shared by all instances of a mode class; the contracts speak about one instance at a time",
    "tm passed to on_iteration is non-decreasing within an autonomous period and below 2**32-1; durations on the dashboard are >= 0",
    "registered variable names are pairwise distinct; next_state links name existing states (wf)",
    "getattr/setattr on the instance and the class (reflection) and the ntcore getters are assumed externals",
]

"""Sorts and symbolic values for pyvc.

Every Python value the engine manipulates is a `V`: a sort descriptor plus a list of z3 terms
("components").  Heap fields, fresh values, havoc, if-then-else and equality are all defined
componentwise, so adding a sort only means saying what its components are.

Python semantics assumed here (also listed in the evidence files):
  * int is mathematical (z3 Int); float is modelled as z3 Real;
  * object identity is a value of the uninterpreted sort Ref, None is the constant `null`;
  * lists/tuples used as sequences are mathematical sequences (length + Array Int->elem);
  * dicts are (domain, value array, insertion-ordered key sequence).
"""
import z3

Ref = z3.DeclareSort("Ref")
null = z3.Const("null", Ref)
BVW = 32  # width of bounded ints used for ^ & | >> <<

_fresh_ctr = [0]


def fresh_name(base):
    _fresh_ctr[0] += 1
    return f"{base}!{_fresh_ctr[0]}"


class Sort:
    name = "?"

    def comps(self):
        raise NotImplementedError

    def fresh(self, base):
        return V(self, [z3.Const(fresh_name(f"{base}.{i}"), s) for i, s in enumerate(self.comps())])

    def __repr__(self):
        return self.name

    def __eq__(self, o):
        return isinstance(o, Sort) and repr(self) == repr(o)

    def __hash__(self):
        return hash(repr(self))


class Prim(Sort):
    def __init__(self, name, z):
        self.name, self.z = name, z

    def comps(self):
        return [self.z]


BOOL = Prim("Bool", z3.BoolSort())
INT = Prim("Int", z3.IntSort())
REAL = Prim("Real", z3.RealSort())
STR = Prim("Str", z3.StringSort())
BV = Prim("BV", z3.BitVecSort(BVW))


class RefSort(Sort):
    def __init__(self, cls):
        self.cls = cls
        self.name = f"Ref:{cls}"

    def comps(self):
        return [Ref]


class NoneSortT(Sort):
    name = "None"

    def comps(self):
        return []


NONE = NoneSortT()


class OptSort(Sort):
    """Optional primitive: (is_none, value)."""

    def __init__(self, inner):
        self.inner = inner
        self.name = f"Opt[{inner.name}]"

    def comps(self):
        return [z3.BoolSort()] + self.inner.comps()


class UnionSort(Sort):
    """str | <object of class cls>: (is_obj, str value, ref value)"""

    def __init__(self, cls):
        self.cls = cls
        self.name = f"StrOr:{cls}"

    def comps(self):
        return [z3.BoolSort(), z3.StringSort(), Ref]


class TupleSort(Sort):
    def __init__(self, items):
        self.items = list(items)
        self.name = "(" + ",".join(i.name for i in self.items) + ")"

    def comps(self):
        out = []
        for i in self.items:
            out += i.comps()
        return out


class SeqSort(Sort):
    """(len, one Array Int->c per component c of the element sort)."""

    def __init__(self, elem):
        self.elem = elem
        self.name = f"Seq[{elem.name}]"

    def comps(self):
        return [z3.IntSort()] + [z3.ArraySort(z3.IntSort(), c) for c in self.elem.comps()]


class MapSort(Sort):
    """(dom: K->Bool, one Array K->c per value component, keys: Seq[K])."""

    def __init__(self, key, val):
        self.key, self.val = key, val
        self.name = f"Map[{key.name},{val.name}]"
        assert len(key.comps()) == 1

    def comps(self):
        k = self.key.comps()[0]
        return ([z3.ArraySort(k, z3.BoolSort())] + [z3.ArraySort(k, c) for c in self.val.comps()]
                + SeqSort(self.key).comps())


def parse_sort(s):
    s = s.strip()
    if s in ("Bool", "Int", "Real", "Str", "BV"):
        return {"Bool": BOOL, "Int": INT, "Real": REAL, "Str": STR, "BV": BV}[s]
    if s.startswith("Ref:"):
        return RefSort(s[4:])
    if s.startswith("StrOr:"):
        return UnionSort(s[6:])
    if s == "Ref":
        return RefSort("object")
    if s.startswith("Opt[") and s.endswith("]"):
        return OptSort(parse_sort(s[4:-1]))
    if s.startswith("Seq[") and s.endswith("]"):
        return SeqSort(parse_sort(s[4:-1]))
    if s.startswith("Map[") and s.endswith("]"):
        a, b = _split_top(s[4:-1])
        return MapSort(parse_sort(a), parse_sort(b))
    if s.startswith("(") and s.endswith(")"):
        return TupleSort([parse_sort(p) for p in _split_all(s[1:-1])])
    raise ValueError(f"unknown sort {s!r}")


def _split_all(s):
    out, depth, cur = [], 0, ""
    for ch in s:
        if ch in "[(":
            depth += 1
        if ch in "])":
            depth -= 1
        if ch == "," and depth == 0:
            out.append(cur)
            cur = ""
        else:
            cur += ch
    if cur.strip():
        out.append(cur)
    return out


def _split_top(s):
    parts = _split_all(s)
    assert len(parts) == 2, s
    return parts


class SortMismatch(TypeError):
    """the code handles a value in a way the sidecar's declared sorts do not allow (contract/code mismatch -> undecided)"""


class V:
    """A symbolic value."""

    __slots__ = ("sort", "comps")

    def __init__(self, sort, comps):
        self.sort = sort
        self.comps = list(comps)

    @property
    def z(self):
        assert len(self.comps) == 1, self.sort
        return self.comps[0]

    def __repr__(self):
        return f"V<{self.sort}>{self.comps}"


# ----- python-level (non-z3) values ------------------------------------------------------------

class PyVal:
    """Values that never reach the solver: callables, modules, classes, python tuples."""


class VFunc(PyVal):
    def __init__(self, contract, bound_self=None, name=None):
        self.contract, self.bound_self, self.name = contract, bound_self, name or contract

    def __repr__(self):
        return f"VFunc({self.contract})"


class VDotted(PyVal):
    """A module / class / dotted path that is resolved against the externals table."""

    def __init__(self, path):
        self.path = path

    def __repr__(self):
        return f"VDotted({self.path})"


class VPyTuple(PyVal):
    def __init__(self, items):
        self.items = list(items)


class VBuiltin(PyVal):
    def __init__(self, name):
        self.name = name


class VConstSeq(PyVal):
    """A module-level list/tuple literal of ints (e.g. a lookup table)."""

    def __init__(self, values):
        self.values = list(values)
        self._arr = None

    def lookup_bv(self, idx):
        """table[idx] as a balanced if-then-else tree over the index bits (bit-blasts well)"""
        n = 1
        while (1 << n) < len(self.values):
            n += 1
        vals = self.values + [0] * ((1 << n) - len(self.values))

        def tree(bit, lo):
            if bit < 0:
                return z3.BitVecVal(vals[lo], BVW)
            return z3.If(z3.Extract(bit, bit, idx) == 1, tree(bit - 1, lo + (1 << bit)), tree(bit - 1, lo))
        return tree(n - 1, 0)


# ----- constructors -----------------------------------------------------------------------------

def vbool(z):
    if isinstance(z, bool):
        z = z3.BoolVal(z)
    return V(BOOL, [z])


def vint(z):
    if isinstance(z, int):
        z = z3.IntVal(z)
    return V(INT, [z])


def vreal(z):
    if isinstance(z, float):
        from fractions import Fraction
        fr = Fraction(repr(z))  # the decimal value written in the source (floats are modelled as reals)
        z = z3.Q(fr.numerator, fr.denominator)
    elif isinstance(z, int):
        z = z3.RealVal(z)
    return V(REAL, [z])


def vstr(z):
    if isinstance(z, str):
        z = z3.StringVal(z)
    return V(STR, [z])


def vbv(z):
    if isinstance(z, int):
        z = z3.BitVecVal(z, BVW)
    return V(BV, [z])


def vref(z, cls="object"):
    return V(RefSort(cls), [z])


VNONE = V(NONE, [])


def vtuple(items):
    comps = []
    for i in items:
        comps += i.comps
    return V(TupleSort([i.sort for i in items]), comps)


def tuple_items(v):
    out, k = [], 0
    for s in v.sort.items:
        n = len(s.comps())
        out.append(V(s, v.comps[k:k + n]))
        k += n
    return out


def is_num(v):
    return isinstance(v, V) and v.sort in (INT, REAL)


def to_real(v):
    if v.sort == REAL:
        return v.z
    if v.sort == INT:
        return z3.ToReal(v.z)
    if v.sort == BOOL:
        return z3.If(v.z, z3.RealVal(1), z3.RealVal(0))
    raise TypeError(f"not numeric: {v}")


def coerce(v, sort):
    """Coerce value v to `sort` (None -> null / Opt-none, Int -> Real, ...)."""
    if isinstance(v, PyVal):
        raise SortMismatch(f"cannot store python-level value {v!r} as {sort}")
    if v.sort == sort:
        return v
    if isinstance(sort, RefSort):
        if v.sort == NONE:
            return V(sort, [null])
        if isinstance(v.sort, RefSort):
            return V(sort, v.comps)
    if isinstance(sort, UnionSort):
        if v.sort == STR:
            return V(sort, [z3.BoolVal(False), v.z, null])
        if isinstance(v.sort, RefSort):
            return V(sort, [z3.BoolVal(True), z3.StringVal(""), v.z])
    if isinstance(sort, OptSort):
        if v.sort == NONE:
            d = sort.inner.fresh("optdummy")
            return V(sort, [z3.BoolVal(True)] + d.comps)
        if isinstance(v.sort, OptSort):
            return V(sort, v.comps)
        inner = coerce(v, sort.inner)
        return V(sort, [z3.BoolVal(False)] + inner.comps)
    if sort == REAL and v.sort in (INT, BOOL):
        return vreal(to_real(v))
    if sort == INT and v.sort == BOOL:
        return vint(z3.If(v.z, 1, 0))
    if sort == BV and v.sort == INT:
        if z3.is_int_value(v.z):
            return vbv(z3.BitVecVal(v.z.as_long(), BVW))
        return vbv(z3.Int2BV(v.z, BVW))
    if sort == INT and v.sort == BV:
        return vint(z3.BV2Int(v.z))
    if isinstance(sort, SeqSort) and isinstance(v.sort, SeqSort):
        if len(v.comps) == len(sort.comps()):
            return V(sort, v.comps)
        if v.sort.elem == NONE:  # empty literal
            e = sort.fresh("empty")
            return V(sort, [z3.IntVal(0)] + e.comps[1:])
    if isinstance(sort, MapSort) and isinstance(v.sort, MapSort):
        if len(v.comps) == len(sort.comps()):
            return V(sort, v.comps)
    if isinstance(sort, TupleSort) and isinstance(v.sort, TupleSort) and len(sort.items) == len(v.sort.items):
        return vtuple([coerce(a, s) for a, s in zip(tuple_items(v), sort.items)])
    raise SortMismatch(f"cannot coerce {v.sort} to {sort}")


def v_ite(c, a, b):
    if a.sort != b.sort and a.sort in (INT, REAL, BOOL) and b.sort in (INT, REAL, BOOL) and REAL in (a.sort, b.sort):
        a, b = coerce(a, REAL), coerce(b, REAL)
    if a.sort != b.sort:
        if a.sort == NONE or isinstance(b.sort, OptSort):
            a = coerce(a, b.sort)
        else:
            b = coerce(b, a.sort)
    return V(a.sort, [z3.If(c, x, y) for x, y in zip(a.comps, b.comps)])


def v_eq(a, b):
    """Python == on symbolic values (for the sorts where it is structural)."""
    if a.sort == NONE and b.sort == NONE:
        return z3.BoolVal(True)
    if a.sort == NONE:
        a, b = b, a
    if b.sort == NONE:
        if isinstance(a.sort, RefSort):
            return a.z == null
        if isinstance(a.sort, OptSort):
            return a.comps[0]
        return z3.BoolVal(False)
    if isinstance(a.sort, OptSort) or isinstance(b.sort, OptSort):
        s = a.sort if isinstance(a.sort, OptSort) else b.sort
        a, b = coerce(a, s), coerce(b, s)
        return z3.Or(z3.And(a.comps[0], b.comps[0]),
                     z3.And(z3.Not(a.comps[0]), z3.Not(b.comps[0]),
                            *[x == y for x, y in zip(a.comps[1:], b.comps[1:])]))
    if is_num(a) and is_num(b) and a.sort != b.sort:
        return to_real(a) == to_real(b)
    if a.sort == BOOL and is_num(b):
        return to_real(a) == to_real(b)
    if b.sort == BOOL and is_num(a):
        return to_real(a) == to_real(b)
    if a.sort == BV and b.sort == INT:
        return z3.BV2Int(a.z) == b.z
    if a.sort == INT and b.sort == BV:
        return a.z == z3.BV2Int(b.z)
    if isinstance(a.sort, RefSort) and isinstance(b.sort, RefSort):
        return a.z == b.z
    if a.sort != b.sort:
        raise SortMismatch(f"== between {a.sort} and {b.sort}")
    if isinstance(a.sort, (SeqSort, MapSort)):
        raise TypeError("== on sequences/maps is not supported; use seq_eq in specs")
    return z3.And(*[x == y for x, y in zip(a.comps, b.comps)]) if a.comps else z3.BoolVal(True)


# ----- sequences ---------------------------------------------------------------------------------

def seq_len(v):
    return v.comps[0]


def seq_get(v, i):
    """element i (a z3 Int) of sequence value v"""
    e = v.sort.elem
    return V(e, [z3.Select(a, i) for a in v.comps[1:]])


def seq_append(v, x):
    x = coerce(x, v.sort.elem)
    n = v.comps[0]
    return V(v.sort, [n + 1] + [z3.Store(a, n, c) for a, c in zip(v.comps[1:], x.comps)])


def seq_empty(elem):
    s = SeqSort(elem)
    f = s.fresh("nil")
    return V(s, [z3.IntVal(0)] + f.comps[1:])


# ----- maps --------------------------------------------------------------------------------------

def map_parts(m):
    nv = len(m.sort.val.comps())
    dom = m.comps[0]
    vals = m.comps[1:1 + nv]
    keys = V(SeqSort(m.sort.key), m.comps[1 + nv:])
    return dom, vals, keys


def map_has(m, k):
    return z3.Select(m.comps[0], k.z)


def map_get(m, k):
    dom, vals, keys = map_parts(m)
    return V(m.sort.val, [z3.Select(a, k.z) for a in vals])


def map_empty(key, val):
    s = MapSort(key, val)
    f = s.fresh("emptymap")
    dom, vals, keys = map_parts(f)
    return V(s, [z3.K(key.comps()[0], z3.BoolVal(False))] + vals + [z3.IntVal(0)] + keys.comps[1:])


def map_set(m, k, v):
    """m[k] = v : value overwritten, key appended to the order only if new"""
    dom, vals, keys = map_parts(m)
    v = coerce(v, m.sort.val)
    k = coerce(k, m.sort.key)
    had = z3.Select(dom, k.z)
    ndom = z3.Store(dom, k.z, z3.BoolVal(True))
    nvals = [z3.Store(a, k.z, c) for a, c in zip(vals, v.comps)]
    n = keys.comps[0]
    nkeys = [z3.If(had, n, n + 1), z3.If(had, keys.comps[1], z3.Store(keys.comps[1], n, k.z))]
    return V(m.sort, [ndom] + nvals + nkeys)

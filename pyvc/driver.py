"""Check driver: property id -> sidecars -> tasks -> obligations -> verdict, evidence, replay files."""
import importlib
import json
import multiprocessing as mp
import os
import re
import subprocess
import sys
import time
import traceback

import z3

from . import engine, solve
from .engine import Ctx, Task, Unsupported
from .sorts import V, SortMismatch

VERIF = os.path.dirname(os.path.dirname(os.path.abspath(__file__)))
REPO = engine.REPO
VENV_PY = "/venv/bin/python"

# which sidecars serve which property
SIDECARS = {}


def register(prop, mods):
    SIDECARS[prop] = mods


def load_ctx(mods):
    ctx = Ctx()
    loaded = []
    for m in mods:
        mod = importlib.import_module(f"contracts.{m}")
        ctx.load_sidecar(mod)
        loaded.append(mod)
    return ctx, loaded


def tags_of(name):
    return sorted(set(re.findall(r"\bC\d\d\b", name)))


def _pyval(v):
    try:
        if z3.is_int_value(v):
            return v.as_long()
        if z3.is_rational_value(v):
            return float(v.numerator_as_long()) / float(v.denominator_as_long())
        if z3.is_true(v):
            return True
        if z3.is_false(v):
            return False
        if z3.is_bv_value(v):
            return v.as_long()
        if z3.is_string_value(v):
            return v.as_string()
        if z3.is_algebraic_value(v):
            return float(v.approx(12).as_decimal(12).rstrip("?"))
    except Exception:
        pass
    return str(v)


def generic_extract(task, ob, m):
    """pre-state of the receiver (two levels deep), parameters and ghost globals, read off the counter-model"""
    from .sorts import RefSort, Ref, null
    ctx = task.ctx
    out = {"params": {}, "globals": {}, "self": {}}
    for n, v in task.old_locals.items():
        if isinstance(v, V) and len(v.comps) == 1 and n != "self":
            out["params"][n] = _pyval(m.eval(v.comps[0], True))

    def fields_of(cls, ref, depth):
        res = {}
        for c in ctx.mro(cls):
            for f, sort in ctx.classes.get(c, {}).get("fields", {}).items():
                if sort == "py" or len(sort.comps()) != 1:
                    continue
                arr = z3.Const(f"H.{c}.{f}.0!0", z3.ArraySort(Ref, sort.comps()[0]))
                val = m.eval(z3.Select(arr, ref), True)
                if isinstance(sort, RefSort):
                    isnull = z3.is_true(m.eval(val == null, True))
                    if isnull:
                        res[f] = None
                    elif depth > 0 and sort.cls in ctx.classes:
                        res[f] = {"ref": str(val), "fields": fields_of(sort.cls, val, depth - 1)}
                    else:
                        res[f] = {"ref": str(val)}
                else:
                    res[f] = _pyval(val)
        return res
    if task.receiver and "self" in task.old_locals:
        out["self"] = fields_of(task.receiver, task.old_locals["self"].z, 1)
    for g, sort in ctx.globals.items():
        if len(sort.comps()) == 1:
            out["globals"][g] = _pyval(m.eval(z3.Const(f"G.{g}.0!0", sort.comps()[0]), True))
    return out


def _run_task(args):
    """executed in a worker process"""
    mods, cname, receiver, opts = args
    t0 = time.time()
    out = {"label": f"{cname}@{receiver}" if receiver else cname, "contract": cname, "receiver": receiver,
           "obligations": [], "error": None, "unsupported": None}
    try:
        ctx, loaded = load_ctx(mods)
        task = Task(ctx, cname, receiver, opts)
        out["label"] = task.label
        out["file"] = task.src.relpath
        out["qualname"] = task.contract.source
        out["sha256"] = task.src.sha(task.fn)
        out["lines"] = [task.fn.lineno, task.fn.end_lineno]
        task.run()
        out["paths"] = task.paths
        out["feas_checks"] = task.feas_checks
        out["pre_sat"] = task.pre_sat
        out["dropped"] = sorted(task.dropped)
        out["gen_s"] = round(task.wall, 3)
        hooks = [getattr(m, "REPLAY_EXTRACT", None) for m in loaded]

        t_dis = time.time()
        budget = opts.get("task_budget_s", 120)

        def do_one(ob):
            # once a task has used its solver budget (only happens when many obligations fail), the rest get short timeouts
            if ob.kind == "reach":
                cr, ct = solve.run_cvc5(solve.to_smt2(ob.hyps, ob.goal), 3)
                if cr != "unsat":
                    zs = z3.Solver(); zs.set("timeout", 1500); zs.set("smt.mbqi", False)
                    for h in ob.hyps:
                        zs.add(h)
                    cr = "unsat" if zs.check() == z3.unsat else cr
                return {"name": ob.name, "kind": "reach", "status": "vacuous" if cr == "unsat" else "reachable", "backend": "cvc5/z3", "time": round(ct, 4), "tags": [], "line": None,
                        "trace": [list(x) for x in ob.trace], "nhyps": len(ob.hyps)}
            over = (time.time() - t_dis) > budget
            solve.discharge(ob, 1500 if over else opts.get("z3_timeout_ms", 10000), 3 if over else opts.get("cvc5_timeout_s", 15),
                            opts.get("cross_check", False) and not over, expect_sat=task.contract.probe, quick_fail=over, cvc5_first=(task.contract.prefer == "cvc5"))
            rec = {"name": ob.name, "kind": ob.kind, "status": ob.status, "backend": ob.backend,
                   "time": round(ob.time, 4), "tags": tags_of(ob.name), "line": ob.line,
                   "trace": [list(x) for x in ob.trace], "nhyps": len(ob.hyps)}
            if getattr(ob, "cvc5", None):
                rec["cvc5"] = ob.cvc5
            if ob.status == "sat":
                rec["model"] = solve.model_to_dict(ob.model) if ob.model is not None else {}
                rec["goal"] = str(ob.goal)[:2000]
                if ob.model is not None:
                    try:
                        rec["extract"] = generic_extract(task, ob, ob.model)
                    except Exception as e:
                        rec.setdefault("extract_errors", []).append(repr(e))
                    for h in hooks:
                        if h:
                            try:
                                ex = h(task, ob, ob.model)
                                if ex:
                                    rec.setdefault("extract", {}).update(ex)
                            except Exception as e:  # extraction is best effort
                                rec.setdefault("extract_errors", []).append(repr(e))
            return rec

        obs = task.obligations
        if task.contract.probe:
            obs = [ob for ob in obs if any(x in ob.name for x in task.contract.probe_only)]
            out["probe"] = True
        K = min(int(opts.get("sub_jobs", 8)), max(1, len(obs) // 60))
        if K <= 1:
            out["obligations"] = [do_one(ob) for ob in obs]
        else:
            # raw fork: children inherit the z3 terms; each discharges every K-th obligation and reports through a pipe
            import pickle
            kids = []
            for k in range(K):
                r, w = os.pipe()
                pid = os.fork()
                if pid == 0:
                    os.close(r)
                    try:
                        recs = [(i, do_one(obs[i])) for i in range(k, len(obs), K)]
                        data = pickle.dumps(recs)
                    except BaseException:
                        data = pickle.dumps(("error", traceback.format_exc()))
                    with os.fdopen(w, "wb") as f:
                        f.write(data)
                    os._exit(0)
                os.close(w)
                kids.append((pid, r))
            allrecs = {}
            for pid, r in kids:
                with os.fdopen(r, "rb") as f:
                    data = f.read()
                os.waitpid(pid, 0)
                got = pickle.loads(data)
                if isinstance(got, tuple) and got and got[0] == "error":
                    raise RuntimeError("discharge worker failed:\n" + got[1])
                for i, rec in got:
                    allrecs[i] = rec
            out["obligations"] = [allrecs[i] for i in range(len(obs))]
        reach = [r for r in out["obligations"] if r["kind"] == "reach"]
        if reach:
            out["obligations"] = [r for r in out["obligations"] if r["kind"] != "reach"]
            branch = lambda t: tuple(t) if isinstance(t[1], str) and (t[1] in ("T", "F", "exit") or t[1].startswith("loop#") or t[1].endswith("raises")) else None
            seen_all, seen_ok = set(), set()
            for r in reach:
                bs = {branch(t) for t in r["trace"]} - {None}
                seen_all |= bs
                if r["status"] == "reachable":
                    seen_ok |= bs
            ext = [r for r in reach if "assumed contract" in r["name"]]
            reach = [r for r in reach if "assumed contract" not in r["name"]]
            forced_empty = {}
            for r in ext:        # an assumed contract is suspicious if NO call site on a reachable path admits a non-empty result
                key = r["name"].split("assumed contract ")[1]
                forced_empty.setdefault(key, []).append(r["status"] == "vacuous")
            out["reach_forced_empty"] = sorted(k for k, v in forced_empty.items() if all(v))
            out["reach"] = {"path_ends": len(reach), "vacuous": sum(r["status"] == "vacuous" for r in reach), "assumed_contracts_forcing_an_empty_result": out["reach_forced_empty"],
                            "dead_branches": sorted([list(b) for b in seen_all - seen_ok], key=str)}
    except (Unsupported, SortMismatch) as e:
        out["unsupported"] = str(e)
    except Exception:
        out["error"] = traceback.format_exc()
    out["wall_s"] = round(time.time() - t0, 3)
    return out


def _run_lemma(args):
    mods, idx, opts = args
    t0 = time.time()
    ctx, loaded = load_ctx(mods)
    lemmas = []
    for m in loaded:
        lemmas += list(getattr(m, "LEMMAS", []))
    name, hyps, goal = lemmas[idx][:3]
    extract = lemmas[idx][3] if len(lemmas[idx]) > 3 and callable(lemmas[idx][3]) else None
    hints = lemmas[idx][4] if len(lemmas[idx]) > 4 else {}
    ob = engine.Obligation(name, list(hyps), goal, "lemma", [], "lemma")
    if hints.get("solver") == "cvc5":      # string lemmas: cvc5's string solver first
        cr, ct = solve.run_cvc5(solve.to_smt2(hyps, goal), opts.get("cvc5_timeout_s", 30) * 2)
        if cr == "unsat":
            ob.status, ob.backend, ob.time = "unsat", "cvc5", ct
    if ob.status is None:
        solve.discharge(ob, opts.get("z3_timeout_ms", 10000) * 3, opts.get("cvc5_timeout_s", 30), opts.get("cross_check", False))
    rec = {"name": ob.name, "kind": "lemma", "status": ob.status, "backend": ob.backend, "time": round(ob.time, 4),
           "tags": tags_of(ob.name), "trace": [], "nhyps": len(hyps), "line": None}
    if getattr(ob, "cvc5", None):
        rec["cvc5"] = ob.cvc5
    if ob.status == "sat":
        rec["model"] = solve.model_to_dict(ob.model) if ob.model is not None else {}
        rec["goal"] = str(goal)[:2000]
        if extract and ob.model is not None:
            try:
                rec["extract"] = extract(ob.model)
            except Exception as e:
                rec["extract_errors"] = [repr(e)]
    return {"label": "lemmas", "contract": None, "obligations": [rec], "error": None, "unsupported": None,
            "wall_s": round(time.time() - t0, 3), "lemma": True}


def plan(mods):
    ctx, loaded = load_ctx(mods)
    tasks = []
    for n, c in ctx.contracts.items():
        if c.kind == "repo" and c.verify:
            for r in (c.receivers or [None]):
                tasks.append((n, r))
    nlem = sum(len(getattr(m, "LEMMAS", [])) for m in loaded)
    return ctx, loaded, tasks, nlem


def run_structural(ctx):
    """syntactic obligations on the source (e.g. `__bool__ = get` in a class body)"""
    recs = []
    for name, fn in ctx.structural:
        try:
            ok, detail = fn(ctx)
            recs.append({"name": name, "kind": "structural", "status": "unsat" if ok else "sat", "backend": "ast",
                         "time": 0.0, "tags": tags_of(name), "trace": [], "nhyps": 0, "line": None, "goal": detail, "model": {}})
        except Unsupported as e:
            recs.append({"name": name, "kind": "structural", "status": "unknown", "backend": f"ast:{e}", "time": 0.0,
                         "tags": tags_of(name), "trace": [], "nhyps": 0, "line": None})
    # completeness of the invariant argument: every method defined in the body of a class that has a verified repo contract with
    # "inv": True must itself be under contract (an uncontracted method could break the invariant the others assume)
    import ast as _ast
    inv_classes = {}
    for cn, c in ctx.contracts.items():
        if c.kind == "repo" and c.verify and c.inv and "." in c.source and c.file:
            inv_classes.setdefault((c.file, c.source.rsplit(".", 1)[0]), set())
    for cn, c in ctx.contracts.items():
        if c.kind in ("repo", "callback") and c.file and "." in c.source:
            key = (c.file, c.source.rsplit(".", 1)[0])
            if key in inv_classes:
                inv_classes[key].add(c.source.rsplit(".", 1)[1])
    allowed = {}
    for m in ctx.sidecars.values():
        for k, v in getattr(m, "UNCONTRACTED_OK", {}).items():
            allowed.setdefault(k, set()).update(v)
    for (f, cls), have in sorted(inv_classes.items()):
        try:
            src = ctx.source(f)
            node = None
            body = src.tree.body
            for part in cls.split("."):
                node = next((n for n in body if isinstance(n, _ast.ClassDef) and n.name == part), None)
                if node is None:
                    break
                body = node.body
            if node is None:
                continue
            missing = sorted(n.name for n in node.body if isinstance(n, _ast.FunctionDef) and n.name not in have and n.name not in allowed.get(cls, set()))
            name = f"every method of {cls} (a class whose invariant the contracts rely on) is under contract"
            recs.append({"name": name, "kind": "structural", "status": "unsat" if not missing else "unknown", "backend": "ast" if not missing else f"ast: methods without a contract: {missing}",
                         "time": 0.0, "tags": [], "trace": [], "nhyps": 0, "line": None, "goal": f"methods without contract: {missing}", "model": {}})
        except Unsupported:
            pass
    return {"label": "structural", "contract": None, "obligations": recs, "error": None, "unsupported": None, "wall_s": 0.0, "lemma": True}


def run_modules(mods, opts, jobs=16):
    ctx, loaded, tasks, nlem = plan(mods)
    vm = opts.get("verify_modules")
    if vm and any(m in vm for m in mods):     # (a sidecar group that contains none of them is verified entirely)
        tasks = [t for t in tasks if ctx.contracts[t[0]].origin in vm]
    only = opts.get("only_tasks")
    if only:
        tasks = [t for t in tasks if t[0] in only or f"{t[0]}@{t[1]}" in only]
        nlem = 0
    work = [(_run_task, (mods, n, r, opts)) for n, r in tasks] + [(_run_lemma, (mods, i, opts)) for i in range(nlem)]
    results = []
    if jobs <= 1 or len(work) <= 1:
        for f, a in work:
            results.append(f(a))
    else:
        mpctx = mp.get_context("fork")
        with mpctx.Pool(min(jobs, len(work))) as pool:
            asyncs = [pool.apply_async(f, (a,)) for f, a in work]
            for a in asyncs:
                results.append(a.get())
    if ctx.structural:
        results.append(run_structural(ctx))
    return ctx, loaded, results


def trusted_base(ctx, loaded):
    tb = []
    for n, c in sorted(ctx.contracts.items()):
        if c.kind == "external":
            tb.append(f"assumed contract on external {n}" + (f": {c.note}" if c.note else ""))
        elif c.kind == "callback":
            tb.append(f"callback contract (user code) {n}" + (f": {c.note}" if c.note else ""))
        elif c.kind == "repo" and not c.verify:
            tb.append(f"UNVERIFIED repo contract {n}" + (f": {c.note}" if c.note else ""))
        for k in getattr(c, "assume_entry", {}) or {}:
            tb.append(f"assumed at entry of {n}: {k}")
    for m in loaded:
        for a in getattr(m, "ASSUMPTIONS", []):
            tb.append(a)
        for name, f in getattr(m, "AXIOMS", []):
            tb.append(f"axiom {name}")
    return tb

"""Check driver: property id -> sidecars -> tasks -> obligations -> verdict, evidence, replay files."""
import importlib
import json
import multiprocessing as mp
import os
import re
import subprocess
import sys
import time
import traceback

import z3

from . import engine, solve
from .engine import Ctx, Task, Unsupported
from .sorts import V, SortMismatch

VERIF = os.path.dirname(os.path.dirname(os.path.abspath(__file__)))
REPO = engine.REPO
VENV_PY = "/venv/bin/python"

# which sidecars serve which property
SIDECARS = {}


def register(prop, mods):
    SIDECARS[prop] = mods


def load_ctx(mods):
    ctx = Ctx()
    loaded = []
    for m in mods:
        mod = importlib.import_module(f"contracts.{m}")
        ctx.load_sidecar(mod)
        loaded.append(mod)
    return ctx, loaded


def tags_of(name):
    return sorted(set(re.findall(r"\bC\d\d\b", name)))


def _pyval(v):
    try:
        if z3.is_int_value(v):
            return v.as_long()
        if z3.is_rational_value(v):
            return float(v.numerator_as_long()) / float(v.denominator_as_long())
        if z3.is_true(v):
            return True
        if z3.is_false(v):
            return False
        if z3.is_bv_value(v):
            return v.as_long()
        if z3.is_string_value(v):
            return v.as_string()
        if z3.is_algebraic_value(v):
            return float(v.approx(12).as_decimal(12).rstrip("?"))
    except Exception:
        pass
    return str(v)


def generic_extract(task, ob, m):
    """pre-state of the receiver (two levels deep), parameters and ghost globals, read off the counter-model"""
    from .sorts import RefSort, Ref, null
    ctx = task.ctx
    out = {"params": {}, "globals": {}, "self": {}}
    for n, v in task.old_locals.items():
        if isinstance(v, V) and len(v.comps) == 1 and n != "self":
            out["params"][n] = _pyval(m.eval(v.comps[0], True))

    def fields_of(cls, ref, depth):
        res = {}
        for c in ctx.mro(cls):
            for f, sort in ctx.classes.get(c, {}).get("fields", {}).items():
                if sort == "py" or len(sort.comps()) != 1:
                    continue
                arr = z3.Const(f"H.{c}.{f}.0!0", z3.ArraySort(Ref, sort.comps()[0]))
                val = m.eval(z3.Select(arr, ref), True)
                if isinstance(sort, RefSort):
                    isnull = z3.is_true(m.eval(val == null, True))
                    if isnull:
                        res[f] = None
                    elif depth > 0 and sort.cls in ctx.classes:
                        res[f] = {"ref": str(val), "fields": fields_of(sort.cls, val, depth - 1)}
                    else:
                        res[f] = {"ref": str(val)}
                else:
                    res[f] = _pyval(val)
        return res
    if task.receiver and "self" in task.old_locals:
        out["self"] = fields_of(task.receiver, task.old_locals["self"].z, 1)
    for g, sort in ctx.globals.items():
        if len(sort.comps()) == 1:
            out["globals"][g] = _pyval(m.eval(z3.Const(f"G.{g}.0!0", sort.comps()[0]), True))
    return out


def _limit_memory(gb):
    try:
        import resource
        resource.setrlimit(resource.RLIMIT_AS, (gb << 30, gb << 30))
    except Exception:
        pass


def _guarded_discharge(obs, do_one, opts, K):
    """Discharge `obs` in K forked children (they inherit the z3 terms) that stream one record per obligation back through a
    pipe, under a HARD guard: z3's own timeout is soft (polled between solver steps) and on rare inputs one check runs for
    minutes while allocating tens of GB.  Each child has an address-space limit; the parent watches progress and kills a child
    that spends longer on ONE obligation than every solver stage together may legitimately take.  The obligation it hung on is
    retried once with the out-of-process solver only (cvc5, which has its own hard limit); if that dies too it is `unknown`
    (reach probe: `reachable`) - NEVER a violation.  The remaining obligations of a killed child continue in a fresh child."""
    import pickle, select, struct
    if not obs:
        return []

    def deadline(ob):
        zt = (1500 if ob.kind == "reach" else opts.get("z3_timeout_ms", 10000)) / 1000.0
        ct = 3 if ob.kind == "reach" else opts.get("cvc5_timeout_s", 15)
        return 20 + 4.5 * zt + 2.5 * ct

    def spawn(indices, cvc5_only):
        r, w = os.pipe()
        pid = os.fork()
        if pid == 0:
            os.close(r)
            try:
                try:
                    import resource
                    lim = int(opts.get("solver_mem_gb", 8)) << 30
                    resource.setrlimit(resource.RLIMIT_AS, (lim, lim))
                except Exception:
                    pass
                solve.Z3_DISABLED = cvc5_only
                with os.fdopen(w, "wb", buffering=0) as f:
                    for i in indices:
                        try:
                            data = pickle.dumps(("ok", i, do_one(obs[i])))
                        except MemoryError:
                            data = pickle.dumps(("oom", i, None))
                        except BaseException:
                            tb = traceback.format_exc()
                            data = pickle.dumps(("oom" if "out of memory" in tb else "error", i, tb))
                        f.write(struct.pack("<Q", len(data)) + data)
            finally:
                os._exit(0)
        os.close(w)
        return {"pid": pid, "fd": r, "indices": list(indices), "pos": 0, "buf": b"", "t": time.time(), "cvc5_only": cvc5_only}

    def give_up(i, why):
        ob = obs[i]
        if ob.kind == "reach":
            return {"name": ob.name, "kind": "reach", "status": "reachable", "backend": "hard-guard (%s): undecided, counted as reachable" % why, "time": round(deadline(ob), 1),
                    "tags": [], "line": None, "trace": [list(x) for x in ob.trace], "nhyps": len(ob.hyps)}
        return {"name": ob.name, "kind": ob.kind, "status": "unknown", "backend": "hard-guard: " + why, "time": round(deadline(ob), 1),
                "tags": tags_of(ob.name), "line": getattr(ob, "line", None), "trace": [list(x) for x in ob.trace], "nhyps": len(ob.hyps)}

    recs = {}
    kids = [spawn(range(k, len(obs), K), False) for k in range(max(1, K))]

    def retire(kid, why):
        """the kid died or was killed while working on indices[pos]"""
        try:
            os.kill(kid["pid"], 9)
        except OSError:
            pass
        os.close(kid["fd"])
        os.waitpid(kid["pid"], 0)
        rest = kid["indices"][kid["pos"]:]
        if not rest:
            return
        hung, rest = rest[0], rest[1:]
        if kid["cvc5_only"]:
            recs[hung] = give_up(hung, why + "; cvc5 alone did not finish either")
        else:
            kids.append(spawn([hung], True))
            kids[-1]["why"] = why
        if rest:
            kids.append(spawn(rest, kid["cvc5_only"]))
            if kid["cvc5_only"]:
                kids[-1]["why"] = kid.get("why", why)

    while kids:
        ready = select.select([k["fd"] for k in kids], [], [], 1.0)[0]
        now = time.time()
        for kid in list(kids):
            if kid["fd"] in ready:
                chunk = os.read(kid["fd"], 1 << 20)
                if not chunk:                       # EOF: finished, or died (memory limit, crash)
                    kids.remove(kid)
                    if kid["pos"] < len(kid["indices"]):
                        retire(kid, "solver process died (memory limit of %s GB or crash)" % opts.get("solver_mem_gb", 8))
                    else:
                        os.close(kid["fd"]); os.waitpid(kid["pid"], 0)
                    continue
                kid["buf"] += chunk
                while len(kid["buf"]) >= 8:
                    n = struct.unpack("<Q", kid["buf"][:8])[0]
                    if len(kid["buf"]) < 8 + n:
                        break
                    tag, i, rec = pickle.loads(kid["buf"][8:8 + n])
                    kid["buf"] = kid["buf"][8 + n:]
                    if tag == "error":
                        for k2 in kids:
                            try:
                                os.kill(k2["pid"], 9)
                            except OSError:
                                pass
                        raise RuntimeError("discharge worker failed:\n" + rec)
                    if tag == "oom":
                        if kid["cvc5_only"]:
                            recs[i] = give_up(i, kid.get("why", "") + "; out of memory")
                        else:
                            kids.append(spawn([i], True)); kids[-1]["why"] = "in-process solver ran out of memory"
                    else:
                        if kid["cvc5_only"] and rec.get("kind") != "reach":
                            rec["hard_guard"] = kid.get("why", "in-process solver killed") + "; decided by cvc5 alone"
                        recs[i] = rec
                    kid["pos"] += 1
                    kid["t"] = now
            elif kid["pos"] < len(kid["indices"]) and now - kid["t"] > deadline(obs[kid["indices"][kid["pos"]]]):
                kids.remove(kid)
                retire(kid, "in-process solver exceeded the wall-clock deadline of %.0fs on one obligation" % deadline(obs[kid["indices"][kid["pos"]]]))
    return [recs[i] for i in range(len(obs))]


def _run_task(args):
    """executed in a worker process"""
    mods, cname, receiver, opts = args
    t0 = time.time()
    out = {"label": f"{cname}@{receiver}" if receiver else cname, "contract": cname, "receiver": receiver,
           "obligations": [], "error": None, "unsupported": None}
    try:
        ctx, loaded = load_ctx(mods)
        task = Task(ctx, cname, receiver, opts)
        out["label"] = task.label
        out["file"] = task.src.relpath
        out["qualname"] = task.contract.source
        out["sha256"] = task.src.sha(task.fn)
        out["lines"] = [task.fn.lineno, task.fn.end_lineno]
        task.run()
        out["paths"] = task.paths
        out["feas_checks"] = task.feas_checks
        out["pre_sat"] = task.pre_sat
        out["dropped"] = sorted(task.dropped)
        out["gen_s"] = round(task.wall, 3)
        hooks = [getattr(m, "REPLAY_EXTRACT", None) for m in loaded]

        t_dis = time.time()
        budget = opts.get("task_budget_s", 120)

        def do_one(ob):
            # once a task has used its solver budget (only happens when many obligations fail), the rest get short timeouts
            if ob.kind == "reach":
                cr, ct = solve.run_cvc5(solve.to_smt2(ob.hyps, ob.goal), 3)
                if cr != "unsat" and not solve.Z3_DISABLED:
                    zs = z3.Solver(); zs.set("timeout", 1500); zs.set("smt.mbqi", False)
                    for h in ob.hyps:
                        zs.add(h)
                    cr = "unsat" if zs.check() == z3.unsat else cr
                return {"name": ob.name, "kind": "reach", "status": "vacuous" if cr == "unsat" else "reachable", "backend": "cvc5/z3", "time": round(ct, 4), "tags": [], "line": None,
                        "trace": [list(x) for x in ob.trace], "nhyps": len(ob.hyps)}
            if os.environ.get("PYVC_TEST_HANG") and os.environ["PYVC_TEST_HANG"] in ob.name and not solve.Z3_DISABLED:
                junk = []          # self-test of the hard guard: behave like a runaway in-process solver
                while True:
                    if os.environ.get("PYVC_TEST_HANG_MEM"):
                        junk.append(bytearray(1 << 26))
            over = (time.time() - t_dis) > budget
            solve.discharge(ob, 1500 if over else opts.get("z3_timeout_ms", 10000), 3 if over else opts.get("cvc5_timeout_s", 15),
                            opts.get("cross_check", False) and not over, expect_sat=task.contract.probe, quick_fail=over, cvc5_first=(task.contract.prefer == "cvc5"))
            rec = {"name": ob.name, "kind": ob.kind, "status": ob.status, "backend": ob.backend,
                   "time": round(ob.time, 4), "tags": tags_of(ob.name), "line": ob.line,
                   "trace": [list(x) for x in ob.trace], "nhyps": len(ob.hyps)}
            if getattr(ob, "cvc5", None):
                rec["cvc5"] = ob.cvc5
            if ob.status == "sat":
                rec["model"] = solve.model_to_dict(ob.model) if ob.model is not None else {}
                rec["goal"] = str(ob.goal)[:2000]
                if ob.model is not None:
                    try:
                        rec["extract"] = generic_extract(task, ob, ob.model)
                    except Exception as e:
                        rec.setdefault("extract_errors", []).append(repr(e))
                    for h in hooks:
                        if h:
                            try:
                                ex = h(task, ob, ob.model)
                                if ex:
                                    rec.setdefault("extract", {}).update(ex)
                            except Exception as e:  # extraction is best effort
                                rec.setdefault("extract_errors", []).append(repr(e))
            return rec

        obs = task.obligations
        if task.contract.probe:
            obs = [ob for ob in obs if any(x in ob.name for x in task.contract.probe_only)]
            out["probe"] = True
        out["obligations"] = _guarded_discharge(obs, do_one, opts, min(int(opts.get("sub_jobs", 8)), max(1, len(obs) // 60)))
        reach = [r for r in out["obligations"] if r["kind"] == "reach"]
        if reach:
            out["obligations"] = [r for r in out["obligations"] if r["kind"] != "reach"]
            branch = lambda t: tuple(t) if isinstance(t[1], str) and (t[1] in ("T", "F", "exit") or t[1].startswith("loop#") or t[1].endswith("raises")) else None
            seen_all, seen_ok = set(), set()
            for r in reach:
                bs = {branch(t) for t in r["trace"]} - {None}
                seen_all |= bs
                if r["status"] == "reachable":
                    seen_ok |= bs
            ext = [r for r in reach if "assumed contract" in r["name"]]
            reach = [r for r in reach if "assumed contract" not in r["name"]]
            forced_empty = {}
            for r in ext:        # an assumed contract is suspicious if NO call site on a reachable path admits a non-empty result
                key = r["name"].split("assumed contract ")[1]
                forced_empty.setdefault(key, []).append(r["status"] == "vacuous")
            out["reach_forced_empty"] = sorted(k for k, v in forced_empty.items() if all(v))
            out["reach"] = {"path_ends": len(reach), "vacuous": sum(r["status"] == "vacuous" for r in reach), "assumed_contracts_forcing_an_empty_result": out["reach_forced_empty"],
                            "dead_branches": sorted([list(b) for b in seen_all - seen_ok], key=str)}
    except (Unsupported, SortMismatch) as e:
        out["unsupported"] = str(e)
    except Exception:
        out["error"] = traceback.format_exc()
    out["wall_s"] = round(time.time() - t0, 3)
    return out


def _run_lemma(args):
    mods, idx, opts = args
    t0 = time.time()
    ctx, loaded = load_ctx(mods)
    lemmas = []
    for m in loaded:
        lemmas += list(getattr(m, "LEMMAS", []))
    name, hyps, goal = lemmas[idx][:3]
    extract = lemmas[idx][3] if len(lemmas[idx]) > 3 and callable(lemmas[idx][3]) else None
    hints = lemmas[idx][4] if len(lemmas[idx]) > 4 else {}
    ob = engine.Obligation(name, list(hyps), goal, "lemma", [], "lemma")

    def do_lemma(ob):
        if hints.get("solver") == "cvc5":      # string lemmas: cvc5's string solver first
            cr, ct = solve.run_cvc5(solve.to_smt2(hyps, goal), opts.get("cvc5_timeout_s", 30) * 2)
            if cr == "unsat":
                ob.status, ob.backend, ob.time = "unsat", "cvc5", ct
        if ob.status is None:
            solve.discharge(ob, opts.get("z3_timeout_ms", 10000) * 3, opts.get("cvc5_timeout_s", 30), opts.get("cross_check", False))
        rec = {"name": ob.name, "kind": "lemma", "status": ob.status, "backend": ob.backend, "time": round(ob.time, 4),
               "tags": tags_of(ob.name), "trace": [], "nhyps": len(hyps), "line": None}
        if getattr(ob, "cvc5", None):
            rec["cvc5"] = ob.cvc5
        if ob.status == "sat":
            rec["model"] = solve.model_to_dict(ob.model) if ob.model is not None else {}
            rec["goal"] = str(goal)[:2000]
            if extract and ob.model is not None:
                try:
                    rec["extract"] = extract(ob.model)
                except Exception as e:
                    rec["extract_errors"] = [repr(e)]
        return rec

    # same hard guard as for function obligations (the deadline is computed from the tripled z3 budget lemmas get)
    rec = _guarded_discharge([ob], do_lemma, dict(opts, z3_timeout_ms=opts.get("z3_timeout_ms", 10000) * 3, cvc5_timeout_s=opts.get("cvc5_timeout_s", 30) * 2), 1)[0]
    rec["kind"] = "lemma"
    return {"label": "lemmas", "contract": None, "obligations": [rec], "error": None, "unsupported": None,
            "wall_s": round(time.time() - t0, 3), "lemma": True}


def plan(mods):
    ctx, loaded = load_ctx(mods)
    tasks = []
    for n, c in ctx.contracts.items():
        if c.kind == "repo" and c.verify:
            for r in (c.receivers or [None]):
                tasks.append((n, r))
    nlem = sum(len(getattr(m, "LEMMAS", [])) for m in loaded)
    return ctx, loaded, tasks, nlem


def run_structural(ctx):
    """syntactic obligations on the source (e.g. `__bool__ = get` in a class body)"""
    recs = []
    for name, fn in ctx.structural:
        try:
            ok, detail = fn(ctx)
            if ok is None:      # the syntactic pattern the check is written for is not in the text any more: undecided, not a violation
                raise Unsupported(f"pattern not recognised: {detail}")
            recs.append({"name": name, "kind": "structural", "status": "unsat" if ok else "sat", "backend": "ast",
                         "time": 0.0, "tags": tags_of(name), "trace": [], "nhyps": 0, "line": None, "goal": detail, "model": {}})
        except Unsupported as e:
            recs.append({"name": name, "kind": "structural", "status": "unknown", "backend": f"ast:{e}", "time": 0.0,
                         "tags": tags_of(name), "trace": [], "nhyps": 0, "line": None})
    # completeness of the invariant argument: every method defined in the body of a class that has a verified repo contract with
    # "inv": True must itself be under contract (an uncontracted method could break the invariant the others assume)
    import ast as _ast
    inv_classes = {}
    for cn, c in ctx.contracts.items():
        if c.kind == "repo" and c.verify and c.inv and "." in c.source and c.file:
            inv_classes.setdefault((c.file, c.source.rsplit(".", 1)[0]), set())
    for cn, c in ctx.contracts.items():
        if c.kind in ("repo", "callback") and c.file and "." in c.source:
            key = (c.file, c.source.rsplit(".", 1)[0])
            if key in inv_classes:
                inv_classes[key].add(c.source.rsplit(".", 1)[1])
    allowed = {}
    for m in ctx.sidecars.values():
        for k, v in getattr(m, "UNCONTRACTED_OK", {}).items():
            allowed.setdefault(k, set()).update(v)
    for (f, cls), have in sorted(inv_classes.items()):
        try:
            src = ctx.source(f)
            node = None
            body = src.tree.body
            for part in cls.split("."):
                node = next((n for n in body if isinstance(n, _ast.ClassDef) and n.name == part), None)
                if node is None:
                    break
                body = node.body
            if node is None:
                continue
            missing = sorted(n.name for n in node.body if isinstance(n, _ast.FunctionDef) and n.name not in have and n.name not in allowed.get(cls, set()))
            name = f"every method of {cls} (a class whose invariant the contracts rely on) is under contract"
            recs.append({"name": name, "kind": "structural", "status": "unsat" if not missing else "unknown", "backend": "ast" if not missing else f"ast: methods without a contract: {missing}",
                         "time": 0.0, "tags": [], "trace": [], "nhyps": 0, "line": None, "goal": f"methods without contract: {missing}", "model": {}})
        except Unsupported:
            pass
    return {"label": "structural", "contract": None, "obligations": recs, "error": None, "unsupported": None, "wall_s": 0.0, "lemma": True}


def run_modules(mods, opts, jobs=16):
    ctx, loaded, tasks, nlem = plan(mods)
    vm = opts.get("verify_modules")
    if vm and any(m in vm for m in mods):     # (a sidecar group that contains none of them is verified entirely)
        tasks = [t for t in tasks if ctx.contracts[t[0]].origin in vm]
    only = opts.get("only_tasks")
    if only:
        tasks = [t for t in tasks if t[0] in only or f"{t[0]}@{t[1]}" in only]
        nlem = 0
    work = [(_run_task, (mods, n, r, opts)) for n, r in tasks] + [(_run_lemma, (mods, i, opts)) for i in range(nlem)]
    results = []
    if jobs <= 1 or len(work) <= 1:
        for f, a in work:
            results.append(f(a))
    else:
        mpctx = mp.get_context("fork")
        # workers get an address-space limit, and the whole group a wall-clock limit: a runaway solver call during VC generation
        # (feasibility checks) then ends as an engine error (exit 3), never as a hang of the check or a verdict
        t_end = time.time() + float(opts.get("group_deadline_s", 2400))
        with mpctx.Pool(min(jobs, len(work)), initializer=_limit_memory, initargs=(int(opts.get("worker_mem_gb", 16)),)) as pool:
            asyncs = [pool.apply_async(f, (a,)) for f, a in work]
            for (f, a), r in zip(work, asyncs):
                try:
                    results.append(r.get(timeout=max(1.0, t_end - time.time())))
                except mp.TimeoutError:
                    results.append({"label": str(a[1]) if f is _run_task else "lemmas", "contract": a[1] if f is _run_task else None, "obligations": [],
                                    "error": "wall-clock limit of the module group (%ss) reached while this task was still running" % opts.get("group_deadline_s", 2400), "unsupported": None})
            pool.terminate()
    if ctx.structural:
        results.append(run_structural(ctx))
    return ctx, loaded, results


def trusted_base(ctx, loaded):
    tb = []
    for n, c in sorted(ctx.contracts.items()):
        if c.kind == "external":
            tb.append(f"assumed contract on external {n}" + (f": {c.note}" if c.note else ""))
        elif c.kind == "callback":
            tb.append(f"callback contract (user code) {n}" + (f": {c.note}" if c.note else ""))
        elif c.kind == "repo" and not c.verify:
            tb.append(f"UNVERIFIED repo contract {n}" + (f": {c.note}" if c.note else ""))
        for k in getattr(c, "assume_entry", {}) or {}:
            tb.append(f"assumed at entry of {n}: {k}")
    for m in loaded:
        for a in getattr(m, "ASSUMPTIONS", []):
            tb.append(a)
        for name, f in getattr(m, "AXIOMS", []):
            tb.append(f"axiom {name}")
    return tb

"""Discharging obligations: z3 first, cvc5 (CLI, SMT-LIB2 export) for z3's unknowns or as a cross-check."""
import os
import re
import subprocess
import tempfile
import time
import z3

CVC5 = "/usr/bin/cvc5"


def to_smt2(hyps, goal):
    s = z3.Solver()
    for h in hyps:
        s.add(h)
    s.add(z3.Not(goal))
    txt = s.to_smt2()
    txt = re.sub(r"^\(set-info :status [a-z]+\)\n", "", txt, flags=re.M)
    return "(set-logic ALL)\n" + txt


def run_cvc5(smt2, timeout_s):
    with tempfile.NamedTemporaryFile("w", suffix=".smt2", delete=False, dir=os.environ.get("PYVC_TMP", None)) as f:
        f.write(smt2)
        path = f.name
    try:
        t0 = time.time()
        try:
            p = subprocess.run([CVC5, "--strings-exp", f"--tlimit={int(timeout_s * 1000)}", path],
                               capture_output=True, text=True, timeout=timeout_s + 5)
            out = (p.stdout or "").strip().splitlines()
            r = out[0] if out else "unknown"
            if r not in ("sat", "unsat", "unknown"):
                r = "error:" + (p.stdout + p.stderr)[:200]
        except subprocess.TimeoutExpired:
            r = "unknown"
        return r, time.time() - t0
    finally:
        os.unlink(path)


def model_to_dict(m):
    out = {}
    for d in m.decls():
        try:
            v = m[d]
            s = str(v)
            if len(s) > 300:
                s = s[:300] + "..."
            out[d.name()] = s
        except Exception:
            pass
    return out


def _ground_terms(fs):
    """ground subterms (no bound variables), by sort, of a list of formulas; quantifier bodies are not entered"""
    seen, by_sort = set(), {}

    def walk(t):
        i = t.get_id()
        if i in seen:
            return
        seen.add(i)
        if z3.is_quantifier(t):
            return
        if z3.is_app(t):
            for c in t.children():
                walk(c)
            srt = t.sort()
            if srt.kind() in (z3.Z3_UNINTERPRETED_SORT, z3.Z3_SEQ_SORT) or (srt.kind() == z3.Z3_INT_SORT and t.num_args() == 0 and t.decl().kind() == z3.Z3_OP_UNINTERPRETED):
                by_sort.setdefault(srt.name() if hasattr(srt, "name") else str(srt), {})[i] = t
    for f in fs:
        walk(f)
    return {k: list(v.values()) for k, v in by_sort.items()}


def _instantiate(f, terms, positive=True, cap=40):
    """replace universally quantified subformulas in positive position by the conjunction of their ground instances"""
    if z3.is_quantifier(f):
        if f.is_forall() and positive:
            n = f.num_vars()
            cands = []
            for k in range(n):
                srt = f.var_sort(k)
                key = srt.name() if hasattr(srt, "name") else str(srt)
                cands.append(terms.get(key, [])[:cap])
            if any(len(c) == 0 for c in cands):
                return z3.BoolVal(True)
            import itertools
            insts = []
            for combo in itertools.islice(itertools.product(*cands), 400):
                # de Bruijn: variable 0 is the LAST bound variable
                body = z3.substitute_vars(f.body(), *reversed(combo))
                insts.append(_instantiate(body, terms, True, cap))
            return z3.And(*insts) if insts else z3.BoolVal(True)
        return z3.BoolVal(True) if positive else f
    if z3.is_and(f) or z3.is_or(f):
        ch = [_instantiate(c, terms, positive, cap) for c in f.children()]
        return (z3.And if z3.is_and(f) else z3.Or)(*ch)
    if z3.is_implies(f):
        a, b = f.children()
        return z3.Implies(_instantiate_neg(a), _instantiate(b, terms, positive, cap)) if positive else f
    if z3.is_not(f):
        return f
    return f


def _instantiate_neg(f):
    # antecedents: leave as they are if quantifier-free, otherwise drop to True (weakens the implication's guard -> stronger hyp is NOT sound);
    # so only quantifier-free antecedents are kept; an implication with a quantified antecedent is dropped by the caller
    return f


def _has_q(f, cache={}):
    i = f.get_id()
    if i in cache:
        return cache[i]
    r = z3.is_quantifier(f) or (z3.is_app(f) and any(_has_q(c) for c in f.children()))
    cache[i] = r
    return r


def ground_fallback(hyps, goal, timeout_ms):
    """Weaken the hypotheses to ground instances of their universal quantifiers (2 rounds).
    unsat here => the original VC is valid (instances are consequences of the quantified facts).
    sat here  => a counter-model of the ground-instantiated VC (reported as such)."""
    ng = z3.Not(goal)
    qf = [h for h in hyps if not _has_q(h)]
    qs = [h for h in hyps if _has_q(h)]
    cur = list(qf) + [ng]
    insts = []
    for rnd in range(3):
        terms = _ground_terms(cur + insts)
        insts = []
        for h in qs:
            if z3.is_implies(h) and _has_q(h.children()[0]):
                continue
            g = _instantiate(h, terms)
            if _has_q(g):
                continue    # a quantifier remained (negative position): drop this hypothesis (weakening, sound for unsat)
            insts.append(g)
    s = z3.Solver()
    s.set("timeout", timeout_ms)
    for f in qf + insts:
        s.add(f)
    if _has_q(ng):
        s.set("smt.mbqi", True)
    s.add(ng)
    r = s.check()
    return r, (s.model() if r == z3.sat else None)


Z3_DISABLED = False


def discharge(ob, z3_timeout_ms=10000, cvc5_timeout_s=30, cross_check=False, expect_sat=False, quick_fail=False, cvc5_first=False):
    """sets ob.status in {unsat, sat, unknown}, ob.backend, ob.model (z3 model object kept for replay extraction)"""
    t0 = time.time()
    goal = ob.goal
    if z3.is_true(z3.simplify(goal)):
        ob.status, ob.backend, ob.time = "unsat", "trivial", 0.0
        return ob
    if Z3_DISABLED:
        # retry after the in-process solver was killed by the driver's hard guard: only the out-of-process solver, proofs only
        cr, ct = run_cvc5(to_smt2(ob.hyps, goal), cvc5_timeout_s)
        ob.cvc5 = cr
        ob.status, ob.backend, ob.time = ("unsat" if cr == "unsat" else "unknown"), "cvc5 (z3 killed by hard guard)", time.time() - t0
        return ob
    def mk(mbqi):
        s = z3.Solver()
        s.set("timeout", z3_timeout_ms)
        s.set("smt.mbqi", mbqi)
        for h in ob.hyps:
            s.add(h)
        s.add(z3.Not(goal))
        return s
    if expect_sat:
        # known-finding probes: the obligation is expected to have a counter-model; look for it first
        try:
            gr, gm = ground_fallback(ob.hyps, goal, z3_timeout_ms)
            if gr == z3.sat:
                ob.status, ob.backend, ob.model, ob.time = "sat", "z3-ground-instances", gm, time.time() - t0
                return ob
        except Exception:
            pass
    if cvc5_first and not expect_sat:
        # contracts whose VCs carry many quantified hypotheses: cvc5's E-matching decides them in milliseconds where z3 loops
        cr, ct = run_cvc5(to_smt2(ob.hyps, goal), min(5, cvc5_timeout_s))
        if cr == "unsat":
            ob.status, ob.backend, ob.time, ob.cvc5 = "unsat", "cvc5", time.time() - t0, cr
            return ob
    s = mk(False)
    if cvc5_first:
        s.set("timeout", max(1000, z3_timeout_ms // 2))
    r = s.check()
    ob.time = time.time() - t0
    if r == z3.unsat:
        ob.status, ob.backend = "unsat", "z3"
        if cross_check:
            cr, ct = run_cvc5(to_smt2(ob.hyps, goal), cvc5_timeout_s)
            ob.cvc5 = cr
            ob.time += ct
        return ob
    if r == z3.sat:
        ob.status, ob.backend = "sat", "z3"
        ob.model = s.model()
        return ob
    # unknown -> weaken quantified hypotheses to their ground instances
    try:
        gr, gm = ground_fallback(ob.hyps, goal, z3_timeout_ms)
    except Exception as e:      # the fallback is an optimisation, never a verdict by itself when it breaks
        gr, gm = z3.unknown, None
        ob.fallback_error = repr(e)
    ob.time = time.time() - t0
    if gr == z3.unsat:
        ob.status, ob.backend = "unsat", "z3-ground-instances"
        return ob
    if gr == z3.sat and quick_fail:
        ob.status, ob.backend, ob.time = "unknown", "budget-exhausted (ground-instance counter-model not confirmed)", time.time() - t0
        return ob
    if gr == z3.sat:
        # a counter-model of the *weakened* VC only: try hard to refute (or confirm) it on the full VC before reporting it
        for cfg in (False, True):
            s = mk(cfg)
            s.set("timeout", int(z3_timeout_ms * (1.0 if not cfg else 1.5)))
            r = s.check()
            if r == z3.unsat:
                ob.status, ob.backend, ob.time = "unsat", "z3-retry" + ("-mbqi" if cfg else ""), time.time() - t0
                return ob
            if r == z3.sat:
                ob.status, ob.backend, ob.model, ob.time = "sat", "z3-retry" + ("-mbqi" if cfg else ""), s.model(), time.time() - t0
                return ob
        cr, ct = run_cvc5(to_smt2(ob.hyps, goal), cvc5_timeout_s)
        ob.cvc5 = cr
        if cr == "unsat":
            ob.status, ob.backend, ob.time = "unsat", "cvc5", time.time() - t0
            return ob
        ob.status, ob.backend, ob.time = "sat", ("cvc5+" if cr == "sat" else "") + "z3-ground-instances", time.time() - t0
        ob.model = gm
        return ob
    # model-based quantifier instantiation on the original VC: may still find a counter-model or a proof
    z3_timeout_ms = max(2000, z3_timeout_ms // 2)
    s = mk(True)
    r = s.check()
    ob.time = time.time() - t0
    if r == z3.unsat:
        ob.status, ob.backend = "unsat", "z3-mbqi"
        return ob
    if r == z3.sat:
        ob.status, ob.backend, ob.model = "sat", "z3-mbqi", s.model()
        return ob
    # unknown -> cvc5
    cr, ct = run_cvc5(to_smt2(ob.hyps, goal), cvc5_timeout_s)
    ob.time += ct
    ob.cvc5 = cr
    if cr == "unsat":
        ob.status, ob.backend = "unsat", "cvc5"
    elif cr == "sat":
        ob.status, ob.backend = "sat", "cvc5"
    else:
        ob.status, ob.backend = "unknown", f"z3:{s.reason_unknown()}|cvc5:{cr}"
    return ob

"""Discharging obligations: z3 first, cvc5 (CLI, SMT-LIB2 export) for z3's unknowns or as a cross-check."""
import os
import re
import subprocess
import tempfile
import time
import z3

CVC5 = "/usr/bin/cvc5"


def to_smt2(hyps, goal):
    s = z3.Solver()
    for h in hyps:
        s.add(h)
    s.add(z3.Not(goal))
    txt = s.to_smt2()
    txt = re.sub(r"^\(set-info :status [a-z]+\)\n", "", txt, flags=re.M)
    return "(set-logic ALL)\n" + txt


def run_cvc5(smt2, timeout_s):
    with tempfile.NamedTemporaryFile("w", suffix=".smt2", delete=False, dir=os.environ.get("PYVC_TMP", None)) as f:
        f.write(smt2)
        path = f.name
    try:
        t0 = time.time()
        try:
            p = subprocess.run([CVC5, "--strings-exp", f"--tlimit={int(timeout_s * 1000)}", path],
                               capture_output=True, text=True, timeout=timeout_s + 5)
            out = (p.stdout or "").strip().splitlines()
            r = out[0] if out else "unknown"
            if r not in ("sat", "unsat", "unknown"):
                r = "error:" + (p.stdout + p.stderr)[:200]
        except subprocess.TimeoutExpired:
            r = "unknown"
        return r, time.time() - t0
    finally:
        os.unlink(path)


def model_to_dict(m):
    out = {}
    for d in m.decls():
        try:
            v = m[d]
            s = str(v)
            if len(s) > 300:
                s = s[:300] + "..."
            out[d.name()] = s
        except Exception:
            pass
    return out


def discharge(ob, z3_timeout_ms=10000, cvc5_timeout_s=30, cross_check=False):
    """sets ob.status in {unsat, sat, unknown}, ob.backend, ob.model (z3 model object kept for replay extraction)"""
    t0 = time.time()
    goal = ob.goal
    if z3.is_true(z3.simplify(goal)):
        ob.status, ob.backend, ob.time = "unsat", "trivial", 0.0
        return ob
    def mk(mbqi):
        s = z3.Solver()
        s.set("timeout", z3_timeout_ms)
        s.set("smt.mbqi", mbqi)
        for h in ob.hyps:
            s.add(h)
        s.add(z3.Not(goal))
        return s
    s = mk(False)
    r = s.check()
    if r == z3.unknown:
        z3_timeout_ms = max(2000, z3_timeout_ms // 2)
        s = mk(True)   # model-based quantifier instantiation: can find counter-models under quantifiers
        r = s.check()
    ob.time = time.time() - t0
    if r == z3.unsat:
        ob.status, ob.backend = "unsat", "z3"
        if cross_check:
            cr, ct = run_cvc5(to_smt2(ob.hyps, goal), cvc5_timeout_s)
            ob.cvc5 = cr
            ob.time += ct
        return ob
    if r == z3.sat:
        ob.status, ob.backend = "sat", "z3"
        ob.model = s.model()
        return ob
    # unknown -> cvc5
    cr, ct = run_cvc5(to_smt2(ob.hyps, goal), cvc5_timeout_s)
    ob.time += ct
    ob.cvc5 = cr
    if cr == "unsat":
        ob.status, ob.backend = "unsat", "cvc5"
    elif cr == "sat":
        ob.status, ob.backend = "sat", "cvc5"
    else:
        ob.status, ob.backend = "unknown", f"z3:{s.reason_unknown()}|cvc5:{cr}"
    return ob

"""pyvc engine: symbolic execution of real Python function ASTs against sidecar contracts.

See DESIGN.md section 2.  Entry point: `verify_task(ctx, contract_name, receiver)`.
"""
import ast
import hashlib
import os
import time
import z3

from .sorts import *
from .ops import *

REPO = os.environ.get("PYVC_REPO", "/repo")


# =================================================================================================
# source extraction
# =================================================================================================

class Source:
    """One repository file, parsed on every run.  Nothing is cached between runs."""

    def __init__(self, relpath):
        self.relpath = relpath
        self.path = os.path.join(REPO, relpath)
        with open(self.path) as f:
            self.text = f.read()
        self.tree = ast.parse(self.text)
        self.lines = self.text.splitlines()

    def find(self, qualname):
        """Return (FunctionDef node, enclosing class name or None)."""
        parts = qualname.split(".")
        body, cls = self.tree.body, None
        node = None
        for k, p in enumerate(parts):
            found = [n for n in body if isinstance(n, (ast.FunctionDef, ast.ClassDef)) and n.name == p]
            if not found:
                # properties: take the getter (first def with @property)
                raise Unsupported(f"{self.relpath}: no definition {qualname!r} (contract/code mismatch)")
            node = found[-1]      # the last definition wins (earlier ones are @overload stubs / property getters are handled by name)
            if isinstance(node, ast.ClassDef):
                cls = node.name
                body = node.body
            elif k != len(parts) - 1:
                body = node.body
        if not isinstance(node, ast.FunctionDef):
            raise Unsupported(f"{qualname} is not a function")
        return node, cls

    def sha(self, node):
        seg = "\n".join(self.lines[node.lineno - 1:node.end_lineno])
        return hashlib.sha256(seg.encode()).hexdigest()

    def module_assign(self, name):
        for n in self.tree.body:
            if isinstance(n, ast.Assign) and len(n.targets) == 1 and isinstance(n.targets[0], ast.Name) \
                    and n.targets[0].id == name:
                return n.value
        return None


def mangle(name, cls):
    if cls and name.startswith("__") and not name.endswith("__"):
        return "_" + cls.lstrip("_") + name
    return name


# =================================================================================================
# contracts
# =================================================================================================

class Contract:
    def __init__(self, name, d, origin):
        self.name = name
        self.origin = origin                      # sidecar module name
        self.kind = d.get("kind", "repo")         # repo | external | callback
        self.source = d.get("source", name)       # qualname inside FILE
        self.file = d.get("file")
        self.receivers = d.get("receivers")
        self.params = d.get("params", {})         # name -> sort string ("py" = python-level, untyped)
        self.returns = d.get("returns")
        self.requires = d.get("requires", {})
        self.site_asserts = d.get("site_asserts", {})
        self.modifies = d.get("modifies", [])
        self.ensures = d.get("ensures", {})
        self.raises = d.get("raises", False)      # False | True | "ExcName"
        self.ensures_raise = d.get("ensures_raise", {})
        self.no_raise = d.get("no_raise")         # None | obligation name: body must not raise
        self.inv = d.get("inv", False)            # assume class invariant at entry, assert at exit
        self.inv_on_raise = d.get("inv_on_raise", not d.get("ctor", False))
        self.assert_inv_of = d.get("assert_inv_of", [])   # exprs (in callee param names) whose invariant is asserted at call sites
        self.assume_inv_of = d.get("assume_inv_of", [])   # ... and re-assumed after the call
        self.loops = d.get("loops", {})           # ordinal -> {"inv": {name: expr}, "modifies": [...]}
        self.ghost_entry = d.get("ghost_entry", {})
        self.pure_result = d.get("pure_result")   # expr giving the result exactly (for externals)
        self.verify = d.get("verify", self.kind == "repo")
        self.note = d.get("note", "")
        self.is_property = d.get("property", False)
        self.bind = d.get("bind", {})             # extra name -> expr bindings available in the spec
        self.defaults = d.get("defaults", {})     # parameter defaults (must equal the source's; checked structurally)
        self.inv_exclude_pre = d.get("inv_exclude_pre", [])   # invariant clauses (by name prefix) not needed at entry
        self.assume_entry = d.get("assume_entry", {})
        self.allocates = d.get("allocates", False)   # the call may create objects (other than a returns_fresh result): the allocation ghost grows monotonically
        self.returns_fresh = d.get("returns_fresh", False)   # the result is an object that did not exist before the call
        self.local_sorts = d.get("local_sorts", {})   # sorts of locals that start as empty containers
        self.probe = d.get("probe", False)         # known-finding probe: a variant verified WITHOUT a usage assumption
        self.probe_only = d.get("probe_only", [])  # ... of which only these obligations (substrings) are reported
        self.drop_callee_ensures = d.get("drop_callee_ensures", {})   # callee contract -> ensures-name prefixes not assumed
        self.closure = d.get("closure", {})        # nested function: free variables of the enclosing call, as symbolic values of these sorts
        self.cites = d.get("cites", [])            # an assumed summary of a function verified in another sidecar group: obligation tags that must be discharged there
        self.no_wf = d.get("no_wf", False)        # an initialiser: the receiver's well-formedness is established here, not assumed at entry
        self.prefer = d.get("prefer")             # "cvc5": try cvc5 before z3 on this function's obligations
        self.ctor = d.get("ctor", False)          # constructor: invariant asserted at exit only
        self.ghost_exit = d.get("ghost_exit", {}) # ghost assignments executed at every normal exit
        self.ghost_raise = d.get("ghost_raise", {})   # ... and at every exceptional exit
        self.inv_exclude_raise = d.get("inv_exclude_raise", [])
        self.check_frame = d.get("check_frame", True)
        self.site_asserts_in = d.get("site_asserts_in", {})        # caller contract name -> extra site assertions
        self.site_asserts_for = d.get("site_asserts_for", {})      # caller's receiver class -> extra site assertions
        self.ensures_for_caller = d.get("ensures_for_caller", {})  # caller's receiver class -> extra assumed ensures
        self.requires_for = d.get("requires_for", {})   # receiver class -> extra requires (usage assumptions)
        self.ensures_for = d.get("ensures_for", {})     # receiver class -> extra ensures


class Ctx:
    """Everything a verification task needs: sidecars, sources, class table, contracts."""

    def __init__(self):
        self.contracts = {}
        self.classes = {}       # name -> {"bases": [], "fields": {name: Sort}, "alias": {}, "invariant": {}}
        self.globals = {}       # ghost / module globals: name -> Sort
        self.spec_funcs = {}
        self.axioms = []        # (name, z3 formula)
        self.sources = {}
        self.names = {}         # module-level names in code: name -> ("contract", n) | ("dotted", p) | ("const", value)
        self.sidecars = {}
        self.noop_calls = {"print"}
        self.dyn_getattr = {}   # function qualname -> contract name for getattr with computed names
        self.call_overrides = {}  # (function qualname, call text) -> contract name
        self.yield_events = {}    # generator function qualname -> callback contract standing for the with-block that runs at its bare `yield`
        self.expr_overrides = {}  # (function qualname, expression text) -> (contract name, [argument expressions]): an expression abstracted by an assumed contract
        self.type_of = False      # type(obj) of a modelled object is the uninterpreted type_of(obj) (a TypeObj reference)
        self.event_calls = {}   # "logger.warning" -> contract name (calls that are otherwise dropped)
        self.structural = []
        self.macros = {}

    def source(self, relpath):
        if relpath not in self.sources:
            self.sources[relpath] = Source(relpath)
        return self.sources[relpath]

    def load_sidecar(self, mod):
        name = mod.__name__.split(".")[-1]
        self.sidecars[name] = mod
        for cname, cd in getattr(mod, "CLASSES", {}).items():
            c = self.classes.setdefault(cname, {"bases": [], "fields": {}, "alias": {}, "invariant": {}, "wf": {}})
            c["bases"] = cd.get("bases", c["bases"])
            for f, s in cd.get("fields", {}).items():
                c["fields"][f] = s if (s == "py" or s.startswith("dotted:")) else parse_sort(s)
            if "callable_of" in cd:
                c["callable_of"] = cd["callable_of"]
            if cd.get("class_level"):
                c["class_level"] = list(cd["class_level"])     # optional attributes that live on the class: a new instance may already have them
            if cd.get("exact"):
                c["exact"] = True     # objects declared of this class really are instances of it (isinstance is decided statically)
            c["alias"].update(cd.get("alias", {}))
            c["invariant"].update(cd.get("invariant", {}))
            c["wf"].update(cd.get("wf", {}))
        for g, s in getattr(mod, "GLOBALS", {}).items():
            self.globals[g] = parse_sort(s)
        for n, d in getattr(mod, "CONTRACTS", {}).items():
            d = dict(d)
            d.setdefault("file", getattr(mod, "FILE", None))
            self.contracts[n] = Contract(n, d, name)
        self.spec_funcs.update(getattr(mod, "SPEC_FUNCS", {}))
        self.axioms += list(getattr(mod, "AXIOMS", []))
        self.names.update(getattr(mod, "NAMES", {}))
        self.noop_calls |= set(getattr(mod, "NOOP_CALLS", []))
        self.dyn_getattr.update(getattr(mod, "DYN_GETATTR", {}))
        self.call_overrides.update(getattr(mod, "CALL_OVERRIDES", {}))
        self.expr_overrides.update(getattr(mod, "EXPR_OVERRIDES", {}))
        self.yield_events.update(getattr(mod, "YIELD_EVENTS", {}))
        self.type_of = self.type_of or bool(getattr(mod, "TYPE_OF", False))
        self.event_calls.update(getattr(mod, "EVENT_CALLS", {}))
        for sig, body in getattr(mod, "MACROS", {}).items():
            call = ast.parse(sig, mode="eval").body
            self.macros[call.func.id] = ([a.id for a in call.args], ast.parse(body.strip(), mode="eval").body)
        self.structural += list(getattr(mod, "STRUCTURAL", []))

    # ---- class table helpers
    def mro(self, cls):
        out, todo = [], [cls]
        while todo:
            c = todo.pop(0)
            if c in out:
                continue
            out.append(c)
            todo += self.classes.get(c, {}).get("bases", [])
        return out

    def field_decl(self, cls, field):
        """-> (declaring class, Sort) or None"""
        for c in self.mro(cls):
            f = self.classes.get(c, {}).get("fields", {})
            if field in f:
                return c, f[field]
        return None

    def find_method(self, cls, name, after=None):
        """contract name of method `name` for receiver class `cls` (optionally after class `after` in the MRO)"""
        mro = self.mro(cls)
        if after is not None:
            mro = mro[mro.index(after) + 1:]
        for c in mro:
            if f"{c}.{name}" in self.contracts:
                return f"{c}.{name}"
        return None

    def aliases(self, cls):
        out = {}
        for c in reversed(self.mro(cls)):
            out.update(self.classes.get(c, {}).get("alias", {}))
        return out

    def invariants(self, cls, exclude=()):
        out = {}
        for c in reversed(self.mro(cls)):
            out.update(self.classes.get(c, {}).get("invariant", {}))
        return {k: v for k, v in out.items() if not any(k.startswith(x) for x in exclude)}


# =================================================================================================
# symbolic state
# =================================================================================================

class Snap(tuple):
    """(heap, globals) of a state at some point, plus the allocation ghost at that point"""
    alloc = None


class State:
    def __init__(self):
        self.pc = []            # list of z3 Bool: path condition / assumptions
        self.locals = {}
        self.heap = {}          # (cls, field) -> list of z3 arrays (one per component)
        self.globals = {}       # name -> V
        self.trace = []         # branch decisions (lineno, text)
        self.exc = None         # name of the exception class being handled (for bare raise)
        self.guards = []        # local short-circuit guards (for safety obligations in pure subexpressions)
        self.fresh = []         # objects allocated on this path (pairwise distinct)
        self.born = []          # of those: objects assumed NOT allocated when they were created (constructor / returns_fresh results)
        self.alloc = z3.Const("ALLOC!0", z3.ArraySort(Ref, z3.BoolSort()))   # allocation ghost: which references exist already

    def new_object(self, z):
        for o in self.fresh:
            self.assume(z != o)
        self.fresh = self.fresh + [z]

    def fork(self):
        s = State()
        s.pc = list(self.pc)
        s.locals = dict(self.locals)
        s.heap = dict(self.heap)
        s.globals = dict(self.globals)
        s.trace = list(self.trace)
        s.exc = self.exc
        s.guards = list(self.guards)
        s.fresh = list(self.fresh)
        s.born = list(self.born)
        s.alloc = self.alloc
        return s

    def snapshot(self):
        sn = Snap((dict(self.heap), dict(self.globals)))
        sn.alloc = self.alloc
        return sn

    def assume(self, f):
        if not z3.is_true(f):
            self.pc.append(f)


_QCACHE = {}


def has_quantifier(f):
    k = f.get_id()
    r = _QCACHE.get(k)
    if r is None:
        if z3.is_quantifier(f):
            r = True
        elif z3.is_app(f):
            r = any(has_quantifier(c) for c in f.children())
        else:
            r = False
        _QCACHE[k] = r
    return r


class Obligation:
    def __init__(self, name, hyps, goal, task, trace, kind, line=None):
        self.name, self.hyps, self.goal = name, hyps, goal
        self.task, self.trace, self.kind, self.line = task, trace, kind, line
        self.status = None      # unsat (discharged) | sat | unknown
        self.backend = None
        self.model = None
        self.time = 0.0


class Outcome:
    NORMAL, RETURN, RAISE, BREAK, CONTINUE = "normal", "return", "raise", "break", "continue"

    def __init__(self, kind, st, val=None, exc=None):
        self.kind, self.st, self.val, self.exc = kind, st, val, exc


# =================================================================================================
# the executor
# =================================================================================================

class Task:
    """Verification of one repository function for one receiver class."""

    def __init__(self, ctx, cname, receiver=None, opts=None):
        self.ctx = ctx
        self.contract = ctx.contracts[cname]
        self.receiver = receiver
        self.opts = opts or {}
        self.src = ctx.source(self.contract.file)
        self.fn, self.defcls = self.src.find(self.contract.source)
        self.label = cname if receiver in (None, self.defcls) else f"{cname}@{receiver}"
        if receiver and self.defcls and receiver != self.defcls:
            # the method is verified for a subclass receiver: the subclass must really inherit it (an override would be what runs)
            for n in ast.walk(self.src.tree):
                if isinstance(n, ast.ClassDef) and n.name == receiver.split(".")[-1]:
                    if any(isinstance(m, ast.FunctionDef) and m.name == self.fn.name for m in n.body) \
                            and not any(cc.source == f"{receiver}.{self.fn.name}" for cc in ctx.contracts.values()):      # (fine if the override is under contract itself: this is then its super() target)
                        raise Unsupported(f"{receiver} overrides {self.fn.name}() but the contract verifies {self.contract.source} for that receiver (contract/code mismatch)")
        self.obligations = []
        self.paths = 0
        self.feas_checks = 0
        self.solver = z3.SolverFor("ALL") if False else z3.Solver()
        self.solver.set("timeout", int(self.opts.get("feas_timeout_ms", 1000)))
        self.solver.set("smt.mbqi", False)   # unknown (quantifiers) counts as feasible
        self.loop_ordinals = {}
        k = 0
        for n in ast.walk(self.fn):
            if isinstance(n, (ast.For, ast.While)):
                self.loop_ordinals[id(n)] = k
                k += 1
        self.old = None
        self.fn_locals = assigned_names(self.fn) | {a.arg for a in self.fn.args.args + self.fn.args.kwonlyargs}
        self.dropped = set()
        self.notes = []

    # ---------------------------------------------------------------- feasibility
    def feasible(self, st, extra=None):
        if getattr(self, "no_prune", False):
            return True
        self.feas_checks += 1
        self.solver.push()
        try:
            for f in st.pc:
                if not has_quantifier(f):     # quantified facts are only needed to *prove* things; dropping them here
                    self.solver.add(f)        # can only make more paths look feasible (sound, obligations keep the full pc)
            if extra is not None:
                self.solver.add(extra)
            r = self.solver.check()
        finally:
            self.solver.pop()
        return r != z3.unsat

    # ---------------------------------------------------------------- obligations
    def oblige(self, st, name, goal, kind="assert", line=None):
        hyps = list(st.pc) + list(st.guards)
        if z3.is_true(goal):
            # still counted: trivially discharged by construction
            pass
        self.obligations.append(Obligation(name, hyps, goal, self.label, list(st.trace), kind, line))

    # ---------------------------------------------------------------- heap
    def heap_arrays(self, st, dcls, field, sort):
        key = (dcls, field)
        if key not in st.heap:
            st.heap[key] = [z3.Const(f"H.{dcls}.{field}.{i}!0", z3.ArraySort(Ref, c)) for i, c in enumerate(sort.comps())]
        return st.heap[key]

    def read_field(self, st, obj, field, heap=None):
        cls = obj.sort.cls
        d = self.ctx.field_decl(cls, field)
        if d is None:
            raise Unsupported(f"field {cls}.{field} is not declared in the sidecar (contract/code mismatch)")
        dcls, sort = d
        if sort == "py":
            return VOpaque(f"{cls}.{field}")
        if isinstance(sort, str) and sort.startswith("dotted:"):
            return VDotted(sort[7:])
        if heap is None:
            arrs = self.heap_arrays(st, dcls, field, sort)
        else:
            arrs = heap.get((dcls, field))
            if arrs is None:
                arrs = self.heap_arrays(st, dcls, field, sort) if (dcls, field) not in st.heap else None
                if arrs is None:
                    # field first touched after the snapshot: its initial arrays are the "!0" ones
                    arrs = [z3.Const(f"H.{dcls}.{field}.{i}!0", z3.ArraySort(Ref, c)) for i, c in enumerate(sort.comps())]
        return V(sort, [z3.Select(a, obj.z) for a in arrs])

    def write_field(self, st, obj, field, val):
        cls = obj.sort.cls
        d = self.ctx.field_decl(cls, field)
        if d is None:
            raise Unsupported(f"field {cls}.{field} is not declared in the sidecar (contract/code mismatch)")
        dcls, sort = d
        if sort == "py":
            self.dropped.add("stores to python-level fields (declared 'py' in the sidecar: not read by any verified code)")
            return
        if isinstance(sort, str) and sort.startswith("dotted:"):
            if not (isinstance(val, (VDotted, VFunc)) and (getattr(val, "path", None) == sort[7:] or getattr(val, "contract", None) == sort[7:])):
                raise Unsupported(f"field {cls}.{field} is declared to hold {sort[7:]} but {val} is stored (contract/code mismatch)")
            return
        if isinstance(val, PyVal) and isinstance(sort, RefSort) and "callable_of" in self.ctx.classes.get(sort.cls, {}):
            val = self.wrap_callable(st, val, sort)
        if isinstance(val, VEmptyDict) and isinstance(sort, MapSort):
            val = map_empty(sort.key, sort.val)
        if isinstance(val, VPyList) and isinstance(sort, SeqSort):
            seq = seq_empty(sort.elem)
            for it in val.items:
                if isinstance(it, VPyTuple) and isinstance(sort.elem, TupleSort) and len(sort.elem.items) == len(it.items):
                    it = vtuple([self.wrap_callable(st, x, es) if isinstance(x, PyVal) and isinstance(es, RefSort) and "callable_of" in self.ctx.classes.get(es.cls, {}) else x
                                 for x, es in zip(it.items, sort.elem.items)])
                elif isinstance(it, PyVal) and isinstance(sort.elem, RefSort) and "callable_of" in self.ctx.classes.get(sort.elem.cls, {}):
                    it = self.wrap_callable(st, it, sort.elem)
                seq = seq_append(seq, coerce(it, sort.elem))
            val = seq
        val = coerce(val, sort)
        arrs = self.heap_arrays(st, dcls, field, sort)
        st.heap[(dcls, field)] = [z3.Store(a, obj.z, c) for a, c in zip(arrs, val.comps)]

    def wrap_callable(self, st, val, sort):
        """a python callable stored in a field of a 'callable object' class: fresh object whose link field
        points at the receiver of the bound method (or None for any other callable)"""
        co = self.ctx.classes[sort.cls]["callable_of"]
        w = vref(z3.Const(fresh_name(f"wrap.{sort.cls}"), Ref), sort.cls)
        st.assume(w.z != null)
        st.new_object(w.z)
        st.assume(z3.Not(z3.Select(st.alloc, w.z)))      # taking a bound method / storing a callable creates a new object
        st.alloc = z3.Store(st.alloc, w.z, z3.BoolVal(True))
        st.born = st.born + [w.z]
        link = co["link"]
        if "methods" in co:
            if isinstance(val, VFunc) and val.contract in co["methods"] and val.bound_self is not None:
                self.write_field(st, w, link, val.bound_self)
                self.write_field(st, w, co["tag"], vint(co["methods"][val.contract]))
                return w
            raise Unsupported(f"callable {val} stored where the sidecar expects one of {list(co['methods'])}")
        if isinstance(val, VDotted) and val.path in co.get("dotted", []):
            return w        # a library function named in the sidecar (no receiver)
        if isinstance(val, VFunc) and val.contract == co.get("method") and val.bound_self is not None:
            self.write_field(st, w, link, val.bound_self)
        elif isinstance(val, VPartial) and val.func.contract in co.get("plain", []):
            self.write_field(st, w, link, VNONE)
        else:
            raise Unsupported(f"callable {val} stored where the sidecar expects {co}")
        return w

    def havoc_field(self, st, dcls, field, obj=None):
        sort = self.ctx.classes[dcls]["fields"][field]
        if isinstance(sort, str):
            return   # python-level / dotted fields carry no symbolic state
        arrs = self.heap_arrays(st, dcls, field, sort)
        if obj is None:
            st.heap[(dcls, field)] = [z3.Const(fresh_name(f"H.{dcls}.{field}.{i}"), a.sort()) for i, a in enumerate(arrs)]
        else:
            fr = sort.fresh(f"hv.{field}")
            st.heap[(dcls, field)] = [z3.Store(a, obj.z, c) for a, c in zip(arrs, fr.comps)]

    def get_global(self, st, name, glob=None):
        g = st.globals if glob is None else glob
        if name not in g:
            v = V(self.ctx.globals[name], [z3.Const(f"G.{name}.{i}!0", c) for i, c in enumerate(self.ctx.globals[name].comps())])
            if glob is None:
                st.globals[name] = v
            return v
        return g[name]

    # ---------------------------------------------------------------- spec evaluation
    def spec(self, st, text, env, old=None, self_cls=None):
        """Evaluate a contract expression (python syntax) to a z3 Bool / V.  No forking, no effects."""
        try:
            node = ast.parse(text.strip(), mode="eval").body
        except SyntaxError as e:
            raise Unsupported(f"contract syntax error in {text!r}: {e}")
        ev = SpecEval(self, st, env, old, self_cls)
        return ev.ev(node)

    def spec_bool(self, st, text, env, old=None, self_cls=None):
        v = self.spec(st, text, env, old, self_cls)
        if isinstance(v, V):
            return truth(v)
        return v

    # ---------------------------------------------------------------- running
    def run(self):
        t0 = time.time()
        c = self.contract
        st = State()
        env = {}
        args = self.fn.args
        names = [a.arg for a in args.posonlyargs + args.args + args.kwonlyargs]
        self_v = None
        for i, n in enumerate(names):
            if i == 0 and n == "self" and self.receiver:
                self_v = vref(z3.Const("self", Ref), self.receiver)
                st.assume(self_v.z != null)
                st.locals[n] = self_v
                if c.ctor:      # a new object has none of its optional attributes yet
                    for cn in self.ctx.mro(self.receiver):
                        for fname, fs in self.ctx.classes.get(cn, {}).get("fields", {}).items():
                            if fname.startswith("?") and fname[1:] not in self.ctx.classes.get(cn, {}).get("class_level", []):      # class-level attributes / methods may exist before __init__ runs
                                st.assume(z3.Not(self.read_field(st, self_v, fname).z))
                continue
            s = c.params.get(n)
            if s is None:
                raise Unsupported(f"{self.label}: parameter {n} has no sort in the contract")
            if s == "py":
                st.locals[n] = VOpaque(n)
                continue
            sort = parse_sort(s)
            st.locals[n] = V(sort, [z3.Const(f"{n}.{k}", cs) for k, cs in enumerate(sort.comps())])
            us = sort.inner if isinstance(sort, OptSort) else sort
            if isinstance(us, UnionSort):
                uc = st.locals[n].comps[1:] if isinstance(sort, OptSort) else st.locals[n].comps
                st.assume(z3.Implies(uc[0], uc[2] != null))   # an object alternative of a union is a real object
        for n, srt in c.closure.items():      # closure variables of a nested function: arbitrary values of the declared sorts
            if srt == "py":
                st.locals[n] = VOpaque(n)
            else:
                cs_ = parse_sort(srt)
                st.locals[n] = V(cs_, [z3.Const(f"{n}.{k}", x) for k, x in enumerate(cs_.comps())])
        if args.vararg or args.kwarg:
            self.dropped.add("*args/**kwargs parameters (opaque values, only passed on)")
            for a in (args.vararg, args.kwarg):
                if a is not None:
                    st.locals[a.arg] = VOpaque(a.arg)
        for name, f in self.ctx.axioms:
            st.assume(f)
        env = dict(st.locals)
        # well-formedness + invariant + requires
        if self_v is not None:
            for cn in (self.ctx.mro(self.receiver) if not c.no_wf else []):
                for k, t in self.ctx.classes.get(cn, {}).get("wf", {}).items():
                    st.assume(self.spec_bool(st, t, env, self_cls=self.receiver))
            if c.inv and not c.ctor:
                for k, t in self.ctx.invariants(self.receiver, c.inv_exclude_pre).items():
                    st.assume(self.spec_bool(st, t, env, self_cls=self.receiver))
        for k, t in c.requires.items():
            st.assume(self.spec_bool(st, t, env, self_cls=self.receiver))
        for k, t in c.requires_for.get(self.receiver, {}).items():
            st.assume(self.spec_bool(st, t, env, self_cls=self.receiver))
        for k, t in c.assume_entry.items():
            st.assume(self.spec_bool(st, t, env, self_cls=self.receiver))
        self.old = st.snapshot()
        self.old_alloc = st.alloc
        self.old_locals = dict(st.locals)
        for g, t in c.ghost_entry.items():
            gv = self.spec(st, t, env, self_cls=self.receiver)
            if g.startswith("self."):
                self.write_field(st, self_v, g[5:], gv)
            else:
                st.globals[g] = coerce(gv, self.ctx.globals[g])
        # vacuity: the assumed pre-state must be satisfiable
        self.pre_sat = self._check_sat(st.pc)
        outs = self.exec_block(self.fn.body, st)
        for o in outs:
            self.finish(o)
        self.wall = time.time() - t0
        return self

    def _check_sat(self, fs):
        """vacuity guard: the assumptions must not be contradictory ('unsat' = vacuous = engine error)"""
        s = z3.Solver()
        s.set("timeout", 2000)
        s.set("smt.mbqi", False)
        for f in fs:
            if not has_quantifier(f):     # the quantifier-free part of the assumptions must be satisfiable
                s.add(f)
        return str(s.check())

    def finish(self, o):
        c = self.contract
        st = o.st
        if not self.feasible(st):
            return
        self.paths += 1
        if self.opts.get("reach_probe"):
            # reachability probe: 'False' must NOT follow from the assumptions collected along this path (vacuity guard)
            self.obligations.append(Obligation(f"{self.label}: path end reachable ({'raise' if o.kind == Outcome.RAISE else 'return'})", list(st.pc) + list(st.guards), z3.BoolVal(False), self.label, list(st.trace), "reach", None))
        env = {k: v for k, v in st.locals.items() if k not in self.old_locals}
        env.update(self.old_locals)     # parameter names denote entry values; other locals their final values
        if o.kind in (Outcome.NORMAL, Outcome.RETURN):
            if o.val is not None:
                env["result"] = o.val
            else:
                env["result"] = VNONE
            if c.returns and c.returns != "py" and isinstance(env["result"], V) and env["result"].sort == NONE:
                rs_ = parse_sort(c.returns)
                if isinstance(rs_, (RefSort, OptSort)):
                    env["result"] = coerce(env["result"], rs_)      # `return None` from a function declared to return an object / Optional
            for tgt, t in c.ghost_exit.items():
                val = self.spec(st, t, env, self.old, self.receiver)
                if "." in tgt:
                    on, fn_ = tgt.split(".", 1)
                    self.write_field(st, env[on], fn_, val)
                else:
                    st.globals[tgt] = coerce(val, self.ctx.globals[tgt])
            if c.check_frame:
                self.frame_obligations(st, env)
            for k, t in list(c.ensures.items()) + list(c.ensures_for.get(self.receiver, {}).items()):
                self.oblige(st, f"{self.label}: ensures {k}", self.spec_bool(st, t, env, self.old, self.receiver), "ensures")
            if c.inv and self.receiver:
                for k, t in self.ctx.invariants(self.receiver).items():
                    self.oblige(st, f"{self.label}: invariant {k} at exit", self.spec_bool(st, t, env, self.old, self.receiver), "invariant")
        elif o.kind == Outcome.RAISE:
            env["exc"] = vstr(o.exc or "Exception")
            for tgt, t in c.ghost_raise.items():
                val = self.spec(st, t, env, self.old, self.receiver)
                if tgt.startswith("self."):
                    self.write_field(st, env["self"], tgt[5:], val)
                else:
                    st.globals[tgt] = coerce(val, self.ctx.globals[tgt])
            if c.no_raise:
                self.oblige(st, f"{self.label}: {c.no_raise}", z3.BoolVal(False), "no_raise")
            elif c.raises is False:
                self.oblige(st, f"{self.label}: does not raise ({o.exc})", z3.BoolVal(False), "no_raise")
            for k, t in c.ensures_raise.items():
                self.oblige(st, f"{self.label}: on raise {k}", self.spec_bool(st, t, env, self.old, self.receiver), "ensures_raise")
            if c.inv and c.inv_on_raise and self.receiver:
                for k, t in self.ctx.invariants(self.receiver, list(c.inv_exclude_pre) + list(c.inv_exclude_raise)).items():
                    self.oblige(st, f"{self.label}: invariant {k} at raise", self.spec_bool(st, t, env, self.old, self.receiver), "invariant")
        else:
            raise Unsupported(f"{self.label}: {o.kind} outside a loop")

    def frame_obligations(self, st, env):
        """everything outside the contract's modifies clause is unchanged (checked, not assumed)"""
        c = self.contract
        old_heap, old_glob = self.old
        whole, per_obj, globs = set(), {}, set()
        for m in c.modifies:
            m = m.strip()
            if m.endswith("[*]"):
                cn, f = m[:-3].rsplit(".", 1)
                whole.add((cn, f))
            elif "." in m:
                ox, f = m.rsplit(".", 1)
                if ox in self.ctx.classes and ox not in env:
                    whole.add((ox, f))
                    continue
                prev_old = self.spec(st, f"old({ox})", env, self.old, self.receiver)
                d = self.ctx.field_decl(prev_old.sort.cls, f)
                if d is None:
                    continue   # field of a subclass that this receiver does not have
                per_obj.setdefault((d[0], f), []).append(prev_old.z)
            else:
                globs.add(m)
        for key, arrs in st.heap.items():
            sort = self.ctx.classes[key[0]]["fields"][key[1]]
            olds = old_heap.get(key)
            if olds is None:
                olds = [z3.Const(f"H.{key[0]}.{key[1]}.{i}!0", z3.ArraySort(Ref, cs)) for i, cs in enumerate(sort.comps())]
            if all(z3.eq(a, b) for a, b in zip(arrs, olds)) or key in whole:
                continue
            goals = []
            for a, b in zip(arrs, olds):
                exp = b
                for o in per_obj.get(key, []) + list(st.born):     # objects born on this path are outside the caller's footprint
                    exp = z3.Store(exp, o, z3.Select(a, o))
                goals.append(a == exp)
            self.oblige(st, f"{self.label}: frame: {key[0]}.{key[1]} only changes where the modifies clause allows", z3.And(*goals), "frame")
        for g, v in st.globals.items():
            if g in globs:
                continue
            ov = old_glob.get(g)
            if ov is None:
                ov = V(self.ctx.globals[g], [z3.Const(f"G.{g}.{i}!0", cs) for i, cs in enumerate(self.ctx.globals[g].comps())])
            if all(z3.eq(a, b) for a, b in zip(v.comps, ov.comps)):
                continue
            self.oblige(st, f"{self.label}: frame: global {g} unchanged", z3.And(*[a == b for a, b in zip(v.comps, ov.comps)]), "frame")

    # ---------------------------------------------------------------- statements
    def exec_block(self, stmts, st):
        """-> list of Outcome"""
        live = [st]
        done = []
        for s in stmts:
            nxt = []
            for cur in live:
                for o in self.exec_stmt(s, cur):
                    if o.kind == Outcome.NORMAL:
                        nxt.append(o.st)
                    else:
                        done.append(o)
            live = nxt
            if not live:
                break
        return done + [Outcome(Outcome.NORMAL, s) for s in live]

    def exec_stmt(self, s, st):
        m = getattr(self, "st_" + type(s).__name__, None)
        if m is None:
            raise Unsupported(f"statement {type(s).__name__} at {self.src.relpath}:{s.lineno}")
        return m(s, st)

    def st_FunctionDef(self, s, st):
        st.locals[s.name] = VOpaque(f"local function {s.name}")
        self.dropped.add("bodies of nested function definitions (calling one is unsupported)")
        return [Outcome(Outcome.NORMAL, st)]

    def st_Pass(self, s, st):
        return [Outcome(Outcome.NORMAL, st)]

    def st_Expr(self, s, st):
        if isinstance(s.value, ast.Constant):
            self.dropped.add("docstrings")
            return [Outcome(Outcome.NORMAL, st)]
        if isinstance(s.value, ast.Yield) and s.value.value is None and self.contract.source in self.ctx.yield_events:
            # a bare `yield` of a @contextmanager generator: the body of the caller's with-block runs here (a callback that may raise)
            outs = []
            for s2, v, e in self.call_contract(st, self.ctx.contracts[self.ctx.yield_events[self.contract.source]], None, [], {}, s):
                outs.append(Outcome(Outcome.RAISE, s2, exc=e) if e is not None else Outcome(Outcome.NORMAL, s2))
            return outs
        return [Outcome(Outcome.NORMAL, s2) if e is None else Outcome(Outcome.RAISE, s2, exc=e)
                for s2, v, e in self.ev(s.value, st)]

    def st_AnnAssign(self, s, st):
        self.dropped.add("type annotations")
        if s.value is None:
            return [Outcome(Outcome.NORMAL, st)]
        return self.st_Assign(ast.copy_location(ast.Assign(targets=[s.target], value=s.value), s), st)

    def st_Assign(self, s, st):
        # empty container literals bound to a local whose sort the sidecar declares
        if len(s.targets) == 1 and isinstance(s.targets[0], ast.Name) and s.targets[0].id in self.contract.local_sorts:
            srt = parse_sort(self.contract.local_sorts[s.targets[0].id])
            if isinstance(s.value, ast.Dict) and not s.value.keys and isinstance(srt, MapSort):
                st.locals[s.targets[0].id] = map_empty(srt.key, srt.val)
                return [Outcome(Outcome.NORMAL, st)]
            if isinstance(s.value, ast.List) and not s.value.elts and isinstance(srt, SeqSort):
                st.locals[s.targets[0].id] = seq_empty(srt.elem)
                return [Outcome(Outcome.NORMAL, st)]
        return self._assign(s.targets, s.value, st)

    def _assign(self, targets, value, st):
        outs = []
        for s2, v, e in self.ev(value, st):
            if e is not None:
                outs.append(Outcome(Outcome.RAISE, s2, exc=e))
                continue
            cur = [s2]
            for t in targets:
                nxt = []
                for s3 in cur:
                    nxt += self.assign_to(t, v, s3)
                cur = nxt
            outs += [Outcome(Outcome.NORMAL, x) if not isinstance(x, Outcome) else x for x in cur]
        return outs

    def assign_to(self, t, v, st):
        """-> list of State (or Outcome for raises)"""
        if isinstance(t, ast.Name):
            st.locals[t.id] = v
            return [st]
        if isinstance(t, ast.Attribute):
            res = []
            for s2, obj, e in self.ev(t.value, st):
                if e is not None:
                    res.append(Outcome(Outcome.RAISE, s2, exc=e))
                    continue
                if isinstance(obj, VOpaque):
                    self.dropped.add("attribute stores on opaque python objects (e.g. class attributes set on type(self))")
                    res.append(s2)
                    continue
                if not (isinstance(obj, V) and isinstance(obj.sort, RefSort)):
                    raise Unsupported(f"attribute store on {obj} at line {t.lineno}")
                attr = mangle(t.attr, self.defcls)
                self.safety_nonnull(s2, obj, t)
                setter = self.ctx.find_method(obj.sort.cls, f"{attr}.__set__")
                if setter:
                    for s3, _, e3 in self.call_contract(s2, self.ctx.contracts[setter], obj, [v], {}, t):
                        res.append(s3 if e3 is None else Outcome(Outcome.RAISE, s3, exc=e3))
                    continue
                self.write_field(s2, obj, attr, v)
                if self.ctx.field_decl(obj.sort.cls, f"?{attr}") is not None:
                    self.write_field(s2, obj, f"?{attr}", vbool(True))
                res.append(s2)
            return res
        if isinstance(t, (ast.Tuple, ast.List)):
            items = self.unpack(v, len(t.elts), t)
            cur = [st]
            for te, iv in zip(t.elts, items):
                nxt = []
                for s3 in cur:
                    if isinstance(s3, Outcome):
                        nxt.append(s3)
                    else:
                        nxt += self.assign_to(te, iv, s3)
                cur = nxt
            return cur
        if isinstance(t, ast.Subscript):
            res = []
            for s2, (cont, idx), e in self.ev_many([t.value, t.slice], st):
                if e is not None:
                    res.append(Outcome(Outcome.RAISE, s2, exc=e))
                    continue
                if isinstance(cont, (VDotted, VOpaque)):
                    self.dropped.add("item stores into external/opaque containers (e.g. sys.modules[...] = ...)")
                    res.append(s2)
                    continue
                if isinstance(v, VPyTuple) and v.items and all(isinstance(x, V) for x in v.items):
                    v = vtuple(v.items)
                if isinstance(cont, VEmptyDict):
                    if not (isinstance(idx, V) and isinstance(v, V)):
                        raise Unsupported(f"dict of python-level values at line {t.lineno}")
                    vs = self.opts_map_value_sort(t, v)
                    cont = map_empty(idx.sort, vs)
                if isinstance(cont, V) and isinstance(cont.sort, MapSort):
                    newm = map_set(cont, idx, v)
                    res += self.assign_to(t.value, newm, s2)
                else:
                    raise Unsupported(f"subscript store at line {t.lineno}")
            return res
        raise Unsupported(f"assignment target {type(t).__name__}")

    def opts_map_value_sort(self, t, v):
        """value sort of a dict literal that starts empty: from the loop/contract declaration if given, else the first value"""
        name = t.value.id if isinstance(t.value, ast.Name) else None
        decl = self.contract.local_sorts.get(name) if name else None
        if decl:
            return parse_sort(decl).val
        return v.sort

    def unpack(self, v, n, node):
        if isinstance(v, VPyTuple):
            if len(v.items) != n:
                raise Unsupported("tuple arity mismatch")
            return v.items
        if isinstance(v, V) and isinstance(v.sort, TupleSort):
            items = tuple_items(v)
            if len(items) != n:
                raise Unsupported(f"tuple arity mismatch at line {node.lineno}")
            return items
        raise Unsupported(f"cannot unpack {v} at line {node.lineno}")

    def st_AugAssign(self, s, st):
        load = ast.copy_location(ast.BinOp(left=_as_load(s.target), op=s.op, right=s.value), s)
        ast.fix_missing_locations(load)
        return self._assign([s.target], load, st)

    def st_Return(self, s, st):
        if s.value is None:
            return [Outcome(Outcome.RETURN, st, VNONE)]
        return [Outcome(Outcome.RETURN, s2, v) if e is None else Outcome(Outcome.RAISE, s2, exc=e)
                for s2, v, e in self.ev(s.value, st)]

    def st_Break(self, s, st):
        return [Outcome(Outcome.BREAK, st)]

    def st_Continue(self, s, st):
        return [Outcome(Outcome.CONTINUE, st)]

    def st_Assert(self, s, st):
        """`assert c`: CPython raises AssertionError when c is false (a defensive check, not a proof obligation)"""
        outs = []
        for s2, c, e in self.ev_cond(s.test, st):
            if e is not None:
                outs.append(Outcome(Outcome.RAISE, s2, exc=e))
                continue
            c = z3.simplify(c)
            if not z3.is_true(c) and self.feasible(s2, z3.Not(c)):
                f = s2.fork(); f.assume(z3.Not(c)); f.trace.append((s.lineno, "assert fails"))
                outs.append(Outcome(Outcome.RAISE, f, exc="AssertionError"))
            s2.assume(c)
            outs.append(Outcome(Outcome.NORMAL, s2))
        return outs

    def st_Raise(self, s, st):
        if s.exc is None:
            return [Outcome(Outcome.RAISE, st, exc=st.exc or "Exception")]
        name = _exc_name(s.exc)
        # argument expressions of the exception constructor (messages) are not evaluated
        self.dropped.add("exception message expressions")
        return [Outcome(Outcome.RAISE, st, exc=name)]

    def st_If(self, s, st):
        outs = []
        for s2, c, e in self.ev_cond(s.test, st):
            if e is not None:
                outs.append(Outcome(Outcome.RAISE, s2, exc=e))
                continue
            outs += self.branch(s2, c, s.body, s.orelse, s.lineno)
        return outs

    def branch(self, st, c, body, orelse, lineno):
        outs = []
        c = z3.simplify(c)
        if z3.is_true(c):
            return self.exec_block(body, st)
        if z3.is_false(c):
            return self.exec_block(orelse, st) if orelse else [Outcome(Outcome.NORMAL, st)]
        if self.feasible(st, c):
            t = st.fork()
            t.assume(c)
            t.trace.append((lineno, "T"))
            outs += self.exec_block(body, t)
        nc = z3.Not(c)
        if self.feasible(st, nc):
            f = st.fork()
            f.assume(nc)
            f.trace.append((lineno, "F"))
            outs += self.exec_block(orelse, f) if orelse else [Outcome(Outcome.NORMAL, f)]
        return outs

    # ---- try / with
    def st_Try(self, s, st):
        outs = []
        body_outs = self.exec_block(s.body, st)
        after = []
        for o in body_outs:
            if o.kind == Outcome.RAISE:
                handled = False
                for h in s.handlers:
                    m = self.handler_matches(h, o.exc)
                    if m == "yes":
                        hs = o.st
                        prev = hs.exc
                        hs.exc = o.exc
                        if h.name:
                            if "ExcObj" in self.ctx.classes:      # the sidecar models exception objects: an arbitrary object of class ExcObj
                                eo = vref(z3.Const(fresh_name("excobj"), Ref), "ExcObj")
                                hs.assume(eo.z != null)
                                hs.locals = dict(hs.locals); hs.locals[h.name] = eo
                            else:
                                self.dropped.add("exception object binding (as e)")
                        for ho in self.exec_block(h.body, hs):
                            ho.st.exc = prev if ho.kind != Outcome.RAISE else ho.st.exc
                            after.append(ho)
                        handled = True
                        break
                    if m == "maybe":
                        raise Unsupported(f"cannot decide whether handler at line {h.lineno} catches {o.exc}")
                if not handled:
                    after.append(o)
            elif o.kind == Outcome.NORMAL and s.orelse:
                after += self.exec_block(s.orelse, o.st)
            else:
                after.append(o)
        if s.finalbody:
            for o in after:
                for fo in self.exec_block(s.finalbody, o.st):
                    if fo.kind == Outcome.NORMAL:
                        outs.append(Outcome(o.kind, fo.st, o.val, o.exc))
                    else:
                        outs.append(fo)
        else:
            outs = after
        return outs

    EXC_TREE = {"ZeroDivisionError": "ArithmeticError", "ArithmeticError": "Exception", "ValueError": "Exception",
                "TypeError": "Exception", "AttributeError": "Exception", "KeyError": "LookupError",
                "IndexError": "LookupError", "LookupError": "Exception", "RuntimeError": "Exception",
                "ImportError": "Exception", "NotImplementedError": "RuntimeError", "Exception": "BaseException",
                "MagicInjectError": "ValueError", "IllegalCallError": "TypeError", "NoFirstStateError": "ValueError",
                "MultipleFirstStatesError": "ValueError", "MultipleDefaultStatesError": "ValueError",
                "InvalidStateName": "ValueError", "UserException": "Exception", "NameError": "Exception", "UnboundLocalError": "NameError", "AssertionError": "Exception",
                "UserBaseException": "BaseException"}

    def handler_matches(self, h, exc):
        if h.type is None:
            return "yes"
        names = [_exc_name(t) for t in (h.type.elts if isinstance(h.type, ast.Tuple) else [h.type])]
        e = exc
        while e is not None:
            if e in names:
                return "yes"
            e = self.EXC_TREE.get(e)
        if exc in self.EXC_TREE or exc == "BaseException":
            return "no"
        return "maybe"

    def st_With(self, s, st):
        if len(s.items) != 1:
            raise Unsupported("with with several items")
        item = s.items[0]
        outs = []
        for s2, cm, e in self.ev(item.context_expr, st):
            if e is not None:
                outs.append(Outcome(Outcome.RAISE, s2, exc=e))
                continue
            if not (isinstance(cm, V) and isinstance(cm.sort, RefSort)):
                raise Unsupported("with on a non-object")
            enter = self.ctx.find_method(cm.sort.cls, "__enter__")
            exit_ = self.ctx.find_method(cm.sort.cls, "__exit__")
            if not enter or not exit_:
                raise Unsupported(f"no __enter__/__exit__ contract for {cm.sort.cls}")
            for s3, v, e3 in self.call_contract(s2, self.ctx.contracts[enter], cm, [], {}, s):
                if e3 is not None:
                    outs.append(Outcome(Outcome.RAISE, s3, exc=e3))
                    continue
                if item.optional_vars is not None:
                    (s3,) = self.assign_to(item.optional_vars, v, s3)
                for o in self.exec_block(s.body, s3):
                    # __exit__ runs on every exit; our context managers never swallow (contract says so)
                    for s4, r, e4 in self.call_contract(o.st, self.ctx.contracts[exit_], cm, [VNONE, VNONE, VNONE], {}, s):
                        if e4 is not None:
                            outs.append(Outcome(Outcome.RAISE, s4, exc=e4))
                        else:
                            outs.append(Outcome(o.kind, s4, o.val, o.exc))
        return outs

    # ---- loops
    def loop_spec(self, node):
        k = self.loop_ordinals[id(node)]
        spec = self.contract.loops.get(k)
        if spec is None:
            raise Unsupported(f"{self.label}: loop #{k} (line {node.lineno}) has no invariant in the sidecar")
        return k, spec

    def loop_frame(self, node, st, spec):
        """havoc everything the loop body may change: assigned locals, assigned fields, callee frames"""
        assigned, attrs, calls = set(), set(), set()
        for n in ast.walk(node):
            if isinstance(n, (ast.Assign, ast.AugAssign, ast.AnnAssign, ast.For, ast.With)):
                tg = n.targets if isinstance(n, ast.Assign) else [getattr(n, "target", None)]
                if isinstance(n, ast.With):
                    tg = [i.optional_vars for i in n.items]
                for t in tg:
                    for x in ast.walk(t) if t is not None else []:
                        if isinstance(x, ast.Name) and isinstance(x.ctx, ast.Store):
                            assigned.add(x.id)
                        elif isinstance(x, ast.Subscript) and isinstance(x.ctx, ast.Store) and isinstance(x.value, ast.Name):
                            assigned.add(x.value.id)          # d[k] = v mutates the local container d
                        elif isinstance(x, ast.Subscript) and isinstance(x.ctx, ast.Store) and isinstance(x.value, ast.Attribute):
                            attrs.add((mangle(x.value.attr, self.defcls), _base_name(x.value)))      # o.f[k] = v mutates the container held in field f
                        elif isinstance(x, ast.Attribute) and isinstance(x.ctx, ast.Store):
                            attrs.add((mangle(x.attr, self.defcls), _base_name(x)))
            if isinstance(n, ast.Call):
                f = n.func
                if isinstance(f, ast.Attribute) and f.attr in ("append", "clear", "extend", "update", "pop", "insert", "remove") and isinstance(f.value, ast.Name):
                    assigned.add(f.value.id)      # in-place mutation of a local container
                if isinstance(f, ast.Attribute) and f.attr in ("append", "clear", "extend", "update", "pop", "insert", "remove") and isinstance(f.value, ast.Attribute):
                    attrs.add((mangle(f.value.attr, self.defcls), _base_name(f.value)))      # in-place mutation of a container held in a field
                if isinstance(f, ast.Attribute):
                    calls.add(f.attr)
                    if (self.src.relpath, ast.unparse(f)) in self.ctx.event_calls:
                        calls.add(self.ctx.event_calls[(self.src.relpath, ast.unparse(f))])
                elif isinstance(f, ast.Name):
                    calls.add(f.id)
                    if f.id in st.locals and not isinstance(st.locals[f.id], VBuiltin) or f.id in assigned_names(node):
                        calls.add("__call__")      # a local variable holding some callable object
                else:
                    calls.add("__call__")
        return assigned, attrs, calls

    def dry_run_frame(self, node, st, it):
        """discover the contracts an arbitrary iteration may call: execute the body once with pruning off, keep nothing"""
        nob, npaths = len(self.obligations), self.paths
        outer_collecting, outer_prune = getattr(self, "collecting", None), getattr(self, "no_prune", False)
        self.collecting = set()
        self.no_prune = True
        try:
            d = st.fork()
            assigned, attrs, _ = self.loop_frame(node, d, {})
            for name in assigned:
                if name in d.locals and isinstance(d.locals[name], V):
                    d.locals[name] = d.locals[name].sort.fresh(f"dry.{name}")
            outs = []
            if it is not None:
                iv = z3.Int(fresh_name("__dry_i"))
                for b in self.assign_to(node.target, it[1](iv), d):
                    outs += self.exec_block(node.body, b)
            else:
                for s2, c, e in self.ev_cond(node.test, d):
                    if e is None:
                        outs += self.exec_block(node.body, s2)
            self.dry_local_sorts = {}
            self.dry_none_widen = {}
            for o in outs:
                for name in assigned:
                    v = o.st.locals.get(name)
                    if isinstance(v, V) and name not in st.locals:
                        self.dry_local_sorts.setdefault(name, v.sort)
                    # a local whose sort before the loop differs from what an iteration leaves in it (x = None; for ...: x = obj / n = 0; n = n * 0.5)
                    if isinstance(v, V) and isinstance(st.locals.get(name), V) and st.locals[name].sort != v.sort:
                        self.dry_none_widen.setdefault(name, set()).add(v.sort)
            return set(self.collecting)
        finally:
            if outer_collecting is not None:
                outer_collecting |= self.collecting
            self.no_prune = outer_prune
            self.collecting = outer_collecting
            del self.obligations[nob:]
            self.paths = npaths

    def apply_loop_havoc(self, node, st, spec, it=None):
        assigned, attrs, calls = self.loop_frame(node, st, spec)
        try:
            called = self.dry_run_frame(node, st, it)
        except (Unsupported, SortMismatch):
            called = None
        ls = dict(self.contract.local_sorts)
        ls.update(spec.get("local_sorts", {}))
        for name in assigned:
            if name in ls:
                st.locals[name] = parse_sort(ls[name]).fresh(f"loop.{name}")
            elif name in st.locals and isinstance(st.locals[name], V) and name in getattr(self, "dry_none_widen", {}):
                # the loop changes the sort of this local: continue with the join of the sorts (None + T -> nullable object / Optional[T],
                # Int + Real -> Real, [] + Seq[T] -> Seq[T]); anything else is outside the subset
                st.locals[name] = _join_sorts({st.locals[name].sort} | set(self.dry_none_widen[name]), name).fresh(f"loop.{name}")
            elif name in st.locals and isinstance(st.locals[name], V):
                st.locals[name] = st.locals[name].sort.fresh(f"loop.{name}")
        for a, base in sorted(attrs, key=str):
            bobj = st.locals.get(base) if base is not None and base not in assigned else None
            if isinstance(bobj, V) and isinstance(bobj.sort, RefSort) and self.ctx.field_decl(bobj.sort.cls, a) is not None and (a, None) not in attrs:
                # the field of one object held in a local the loop does not reassign (self.f = ..., self.f[k] = ...): only that object changes
                dcls = self.ctx.field_decl(bobj.sort.cls, a)[0]
                if self.ctx.classes[dcls]["fields"][a] != "py":
                    self.havoc_field(st, dcls, a, bobj)
                continue
            for cn, cd in self.ctx.classes.items():
                if a in cd["fields"] and cd["fields"][a] != "py":
                    self.havoc_field(st, cn, a)
        if called is not None:
            for cname in called:
                self.havoc_contract_frame(st, self.ctx.contracts[cname])
            if any(self.ctx.contracts[cn].ctor or self.ctx.contracts[cn].returns_fresh or self.ctx.contracts[cn].allocates for cn in called):
                na = z3.Const(fresh_name("ALLOC"), z3.ArraySort(Ref, z3.BoolSort()))
                xq = z3.Const(fresh_name("aq"), Ref)
                st.assume(z3.ForAll([xq], z3.Implies(z3.Select(st.alloc, xq), z3.Select(na, xq))))
                st.alloc = na
        else:
            # fallback: callee frames over-approximated by short name
            for cname, c in self.ctx.contracts.items():
                short = cname.split(".")[-1]
                if short in calls or cname in calls:
                    self.havoc_modifies(st, c.modifies, None, whole=True)
        self.havoc_modifies(st, spec.get("modifies", []), st.locals.get("self"), whole=True)
        for v in spec.get("havoc_locals", []):
            if v in st.locals:
                st.locals[v] = st.locals[v].sort.fresh(f"loop.{v}")

    def havoc_contract_frame(self, st, c):
        """whole-array havoc of exactly the fields a callee contract may modify (object expressions resolved by class)"""
        rcls = c.name.rsplit(".", 1)[0] if "." in c.name else None
        for m in c.modifies:
            m = m.strip()
            if m.endswith("[*]") or "." not in m:
                self.havoc_modifies(st, [m], None, whole=True)
                continue
            ox, f = m.rsplit(".", 1)
            cls = None
            if ox == "self" and rcls in self.ctx.classes:
                cls = rcls
            elif ox in c.params and c.params[ox] != "py":
                ps = parse_sort(c.params[ox])
                cls = ps.cls if isinstance(ps, RefSort) else None
            if cls is not None and self.ctx.field_decl(cls, f) is not None:
                # subclasses may redeclare nothing: the declaring class owns the array
                self.havoc_field(st, self.ctx.field_decl(cls, f)[0], f)
                for sub, cd in self.ctx.classes.items():       # and the same field reached through subclasses
                    if cls in self.ctx.mro(sub) and sub != cls and f in cd["fields"]:
                        self.havoc_field(st, sub, f)
            else:
                self.havoc_modifies(st, [m], None, whole=True)

    def havoc_modifies(self, st, mods, self_v, whole=False, env=None):
        for m in mods:
            m = m.strip()
            if m.endswith("[*]"):
                cn, f = m[:-3].rsplit(".", 1)
                self.havoc_field(st, cn, f)
            elif "." in m:
                objx, f = m.rsplit(".", 1)
                if objx in self.ctx.classes and not (env and objx in env):
                    self.havoc_field(st, objx, f)
                    continue
                if whole or env is None:
                    # unknown object in this context: havoc the whole field for every class declaring it
                    for cn, cd in self.ctx.classes.items():
                        if f in cd["fields"] and cd["fields"][f] != "py":
                            self.havoc_field(st, cn, f)
                    continue
                obj = self.spec(st, objx, env, self_cls=env.get("__self_cls__"))
                d = self.ctx.field_decl(obj.sort.cls, f)
                if d is None:
                    continue   # field of a subclass that this receiver does not have
                self.havoc_field(st, d[0], f, obj)
            else:
                if m not in self.ctx.globals:
                    raise Unsupported(f"modifies {m}: not a ghost/global")
                st.globals[m] = self.ctx.globals[m].fresh(f"G.{m}")

    def st_While(self, s, st):
        k, spec = self.loop_spec(s)
        return self.run_loop(s, st, k, spec, None)

    def st_For(self, s, st):
        k, spec = self.loop_spec(s)
        outs = []
        for s2, it, e in self.ev_iter(s.iter, st):
            if e is not None:
                outs.append(Outcome(Outcome.RAISE, s2, exc=e))
                continue
            outs += self.run_loop(s, s2, k, spec, it)
        return outs

    def run_loop(self, node, st, k, spec, it):
        """Inductive loop cut.  `it` is None for while-loops, else a python function i -> element V plus a length."""
        outs = []
        inv = spec.get("inv", {})
        lname = f"{self.label}: loop#{k}"

        loop_entry = st.snapshot()

        def env_of(state, i):
            env = dict(state.locals)
            if i is not None:
                env["__i"] = vint(i)
            if it is not None:
                env["__n"] = vint(it[0])
            env["__loop_entry__"] = loop_entry
            return env

        # 1. invariant holds on entry
        i0 = z3.IntVal(0) if it is not None else None
        for name, t in inv.items():
            self.oblige(st, f"{lname} invariant {name} on entry",
                        self.spec_bool(st, t, env_of(st, i0), self.old, self.receiver), "loop_inv", node.lineno)
        # 2. arbitrary iteration
        h = st.fork()
        self.dry_local_sorts = {}
        self.apply_loop_havoc(node, h, spec, it)
        carried = {n: srt for n, srt in self.dry_local_sorts.items() if n not in h.locals and srt != NONE}
        if carried:
            # locals first bound inside the body: unbound in the first iteration, bound (to anything) in later ones
            outs2 = []
            for variant in ("unbound", "bound"):
                hv = h.fork()
                if variant == "bound":
                    for n, srt in carried.items():
                        hv.locals[n] = srt.fresh(f"carried.{n}")
                hv.trace.append((node.lineno, f"loop-carried locals {variant}"))
                outs2 += self._run_loop_from(node, st, hv, k, spec, it, inv, lname, env_of)
            return outs + outs2
        return outs + self._run_loop_from(node, st, h, k, spec, it, inv, lname, env_of)

    def unconstrained_carried(self, node, spec):
        """locals whose value flows from one iteration into the next (or out of the loop) and that no clause of the loop's
        contract mentions: written in the body, and read in the loop before that write (textually) or after the loop"""
        import re as _re
        texts = []
        for key in ("inv", "post", "body_post"):
            for t in (spec.get(key) or {}).values():
                texts += [str(x) for x in t.values()] if isinstance(t, dict) else [str(t)]
        texts += list((spec.get("local_sorts") or {}).keys())
        texts += list(spec.get("unconstrained_ok") or [])      # carried locals the contract knowingly leaves unconstrained
        blob = "\n".join(texts)
        targets = {x.id for x in ast.walk(node.target) if isinstance(x, ast.Name)} if isinstance(node, ast.For) else set()
        stores, loads = {}, {}
        for part in node.body + ([node.test] if isinstance(node, ast.While) else []):
            for x in ast.walk(part):
                if isinstance(x, ast.Name):
                    d = stores if isinstance(x.ctx, ast.Store) else loads
                    pos = (x.lineno, x.col_offset)
                    d[x.id] = min(d.get(x.id, pos), pos)
                elif isinstance(x, ast.AugAssign) and isinstance(x.target, ast.Name):
                    loads[x.target.id] = min(loads.get(x.target.id, (x.lineno, 0)), (x.lineno, 0))
        after = {x.id for x in ast.walk(self.fn) if isinstance(x, ast.Name) and isinstance(x.ctx, ast.Load) and x.lineno > node.end_lineno}
        out = []
        for name, wpos in sorted(stores.items()):
            if name in targets or name == "self":
                continue
            # an assignment `x = e` is stored at the position of x but e is evaluated first: compare on the line
            live = (name in loads and loads[name][0] <= wpos[0] and loads[name] != wpos) or name in after
            if live and not _re.search(r"\b(L_)?" + _re.escape(name) + r"\b", blob):
                out.append(name)
        return out

    def _run_loop_from(self, node, st, h, k, spec, it, inv, lname, env_of):
        outs = []
        iv = None
        if it is not None:
            iv = z3.Int(fresh_name("__i"))
            h.assume(iv >= 0)
            h.assume(iv <= it[0])
        for name, t in inv.items():
            h.assume(self.spec_bool(h, t, env_of(h, iv), self.old, self.receiver))
        h.trace.append((node.lineno, f"loop#{k}"))
        unc = self.unconstrained_carried(node, spec)
        if unc:
            # a counter-model found past this cut may start from a value of these locals that no execution produces: the driver
            # reports such a failure as "contract does not fit the text" (undecided) unless it is reproduced on the real code
            h.trace.append((node.lineno, "unconstrained loop-carried local(s): " + ", ".join(unc)))

        exits = []       # states leaving the loop normally
        if it is None:
            conds = self.ev_cond(node.test, h)
        else:
            conds = [(h, iv < it[0], None)]
        for s2, c, e in conds:
            if e is not None:
                outs.append(Outcome(Outcome.RAISE, s2, exc=e))
                continue
            # body
            if self.feasible(s2, c):
                b = s2.fork()
                b.assume(c)
                b.trace.append((node.lineno, "iter"))
                if it is not None:
                    elem = it[1](iv)
                    bs = self.assign_to(node.target, elem, b)
                else:
                    bs = [b]
                for b2 in bs:
                    iter_start = b2.snapshot()
                    iter_locals = dict(b2.locals)
                    for o in self.exec_block(node.body, b2):
                        if o.kind in (Outcome.NORMAL, Outcome.CONTINUE):
                            for name, t in (spec.get("body_post", {}).items() if o.kind == Outcome.NORMAL else []):
                                e_bp = env_of(o.st, iv)
                                e_bp["__iter_start__"] = (iter_start, iter_locals)
                                if isinstance(t, dict):     # guarded form: only on paths where the guard can hold (locals may be unbound elsewhere)
                                    g = self.spec_bool(o.st, t["when"], e_bp, self.old, self.receiver)
                                    if not self.feasible(o.st, g):
                                        continue
                                    goal = z3.Implies(g, self.spec_bool(o.st, t["then"], e_bp, self.old, self.receiver))
                                else:
                                    goal = self.spec_bool(o.st, t, e_bp, self.old, self.receiver)
                                self.oblige(o.st, f"{lname} iteration post {name}", goal, "loop_body", node.lineno)
                            nxt = iv + 1 if iv is not None else None
                            for name, t in inv.items():
                                self.oblige(o.st, f"{lname} invariant {name} preserved",
                                            self.spec_bool(o.st, t, env_of(o.st, nxt), self.old, self.receiver),
                                            "loop_inv", node.lineno)
                            self.paths += 1
                        elif o.kind == Outcome.BREAK:
                            exits.append(o.st)
                        else:
                            outs.append(o)
            # exit
            nc = z3.Not(c)
            if self.feasible(s2, nc):
                x = s2.fork()
                x.assume(nc)
                x.trace.append((node.lineno, "exit"))
                if node.orelse:
                    for o in self.exec_block(node.orelse, x):
                        outs.append(o)
                else:
                    exits.append(x)
        for x in exits:
            for name, t in spec.get("post", {}).items():
                self.oblige(x, f"{lname} post {name}", self.spec_bool(x, t, env_of(x, iv), self.old, self.receiver), "loop_post", node.lineno)
            outs.append(Outcome(Outcome.NORMAL, x))
        return outs

    def ev_iter(self, node, st):
        """-> list of (state, (length, getter) , exc)"""
        res = []
        # enumerate(x) / reversed(x) / x.items() / x.values() / plain sequence
        if isinstance(node, ast.Call) and isinstance(node.func, ast.Name) and node.func.id == "enumerate":
            for s2, (n, g), e in self.ev_iter(node.args[0], st):
                res.append((s2, (n, (lambda g: lambda i: VPyTuple([vint(i), g(i)]))(g)), e))
            return res
        if isinstance(node, ast.Call) and isinstance(node.func, ast.Name) and node.func.id == "reversed":
            for s2, (n, g), e in self.ev_iter(node.args[0], st):
                res.append((s2, (n, (lambda g, n: lambda i: g(n - 1 - i))(g, n)), e))
            return res
        if isinstance(node, ast.Call) and isinstance(node.func, ast.Attribute) and node.func.attr in ("items", "values", "keys") \
                and not node.args:
            for s2, m, e in self.ev(node.func.value, st):
                if e is not None:
                    res.append((s2, None, e))
                    continue
                if isinstance(m, V) and isinstance(m.sort, OptSort) and isinstance(m.sort.inner, MapSort):
                    # Optional[dict]: None.items() raises AttributeError, otherwise the dict
                    if self.feasible(s2, m.comps[0]):
                        f2 = s2.fork(); f2.assume(m.comps[0])
                        res.append((f2, None, "AttributeError"))
                    if not self.feasible(s2, z3.Not(m.comps[0])):
                        continue
                    s2 = s2.fork(); s2.assume(z3.Not(m.comps[0]))
                    m = V(m.sort.inner, m.comps[1:])
                if isinstance(m, V) and isinstance(m.sort, MapSort):
                    dom, vals, keys = map_parts(m)
                    kind = node.func.attr

                    def getter(i, m=m, keys=keys, kind=kind):
                        k = seq_get(keys, i)
                        if kind == "keys":
                            return k
                        v = map_get(m, k)
                        return v if kind == "values" else VPyTuple([k, v])
                    res.append((s2, (keys.comps[0], getter), None))
                else:
                    raise Unsupported(f"iteration over .{node.func.attr}() of {m}")
            return res
        for s2, v, e in self.ev(node, st):
            if e is not None:
                res.append((s2, None, e))
            elif isinstance(v, V) and isinstance(v.sort, SeqSort):
                res.append((s2, (seq_len(v), (lambda v: lambda i: seq_get(v, i))(v)), None))
            elif isinstance(v, V) and isinstance(v.sort, MapSort):
                dom, vals, keys = map_parts(v)
                res.append((s2, (keys.comps[0], (lambda keys: lambda i: seq_get(keys, i))(keys)), None))
            elif isinstance(v, VPyTuple):
                raise Unsupported("iteration over a python tuple (unroll not implemented)")
            else:
                raise Unsupported(f"iteration over {v} at line {node.lineno}")
        return res

    # ---------------------------------------------------------------- expressions
    def safety_nonnull(self, st, obj, node):
        if z3.eq(obj.z, z3.Const("self", Ref)):
            return
        self.oblige(st, f"{self.label}: safety: receiver of .{getattr(node, 'attr', '?')} is not None (line +{node.lineno - self.fn.lineno})",
                    obj.z != null, "safety", node.lineno)

    def ev_many(self, nodes, st):
        """evaluate left to right -> list of (state, [values], exc)"""
        res = [(st, [], None)]
        for n in nodes:
            nxt = []
            for s, vals, e in res:
                if e is not None:
                    nxt.append((s, vals + [None], e))
                    continue
                for s2, v, e2 in self.ev(n, s):
                    nxt.append((s2, vals + [v if e2 is None else None], e2))
            res = nxt
        return res

    def ev_cond(self, node, st):
        """evaluate a condition -> list of (state, z3 Bool, exc)"""
        if isinstance(node, ast.BoolOp):
            node._as_bool = True
        return [(s, truth(v) if e is None else None, e) for s, v, e in self.ev(node, st)]

    def ev(self, node, st):
        """-> list of (state, value, exc-name-or-None)"""
        m = getattr(self, "ex_" + type(node).__name__, None)
        if self.ctx.expr_overrides and isinstance(node, (ast.Subscript, ast.Call, ast.BinOp, ast.Attribute, ast.Lambda, ast.Compare, ast.ListComp, ast.DictComp, ast.GeneratorExp, ast.SetComp, ast.JoinedStr)):
            ov = self.ctx.expr_overrides.get((self.contract.source, ast.unparse(node)))
            if ov is not None:
                cn, argx = ov
                res = []
                for s2, vals, e in self.ev_many([ast.parse(x, mode="eval").body for x in argx], st):
                    if e is not None:
                        res.append((s2, None, e)); continue
                    res += self.call_contract(s2, self.ctx.contracts[cn], None, vals, {}, node)
                return res
        if m is None:
            raise Unsupported(f"expression {type(node).__name__} at {self.src.relpath}:{node.lineno}")
        return m(node, st)

    def ex_Constant(self, node, st):
        return [(st, const_value(node.value), None)]

    def ex_Name(self, node, st):
        n = node.id
        if n in st.locals:
            return [(st, st.locals[n], None)]
        if n in self.fn_locals:
            # a local variable that is not bound on this path: CPython raises UnboundLocalError
            return [(st, None, "UnboundLocalError")]
        v = self.module_name(n, node)
        if isinstance(v, tuple) and v[0] == "__global__":
            v = self.get_global(st, v[1])
        return [(st, v, None)]

    def module_name(self, n, node=None):
        ctx = self.ctx
        if n in ctx.names:
            kind, val = ctx.names[n]
            if kind == "contract":
                return VFunc(val)
            if kind == "dotted":
                return VDotted(val)
            if kind == "const":
                return const_value(val)
            if kind == "global":
                return ("__global__", val)
        if n in ("max", "min", "len", "int", "float", "isinstance", "getattr", "hasattr", "callable", "bool", "abs",
                 "setattr", "print", "sorted", "list", "set", "type", "str", "issubclass", "round"):
            return VBuiltin(n)
        if n in ("True", "False", "None"):
            return const_value({"True": True, "False": False, "None": None}[n])
        if n in ctx.contracts:
            return VFunc(n)
        val = self.src.module_assign(n)
        if isinstance(val, (ast.List, ast.Tuple)) and all(isinstance(e, ast.Constant) and isinstance(e.value, int) for e in val.elts):
            return VConstSeq([e.value for e in val.elts])
        if isinstance(val, ast.Constant):
            return const_value(val.value)
        # imported modules / classes: resolved lazily as dotted paths
        for nd in self.src.tree.body:
            if isinstance(nd, ast.Import):
                for a in nd.names:
                    if (a.asname or a.name.split(".")[0]) == n:
                        return VDotted(a.name if a.asname else a.name.split(".")[0])
            if isinstance(nd, ast.ImportFrom):
                for a in nd.names:
                    if (a.asname or a.name) == n:
                        return VDotted(f"{nd.module or ''}.{a.name}".lstrip("."))
            if isinstance(nd, ast.ClassDef) and nd.name == n:
                return VDotted(n)
            if isinstance(nd, ast.Assign) and any(isinstance(t, ast.Name) and t.id == n for t in nd.targets):
                if n == "logger":
                    return VDotted("logger")
        if n in self.EXC_TREE:
            return VDotted(n)
        raise Unsupported(f"name {n!r} cannot be resolved (line {getattr(node, 'lineno', '?')})")

    def ex_Attribute(self, node, st):
        res = []
        for s2, obj, e in self.ev(node.value, st):
            if e is not None:
                res.append((s2, None, e))
                continue
            res += self.get_attr(s2, obj, node.attr, node)
        return res

    def get_attr(self, st, obj, attr, node):
        attr = mangle(attr, self.defcls)
        if isinstance(obj, VDotted):
            path = f"{obj.path}.{attr}"
            if path in self.ctx.contracts:
                return [(st, VFunc(path), None)]
            if path in self.ctx.names:
                kind, val = self.ctx.names[path]
                if kind == "const":
                    return [(st, const_value(val), None)]
                if kind == "contract":
                    return [(st, VFunc(val), None)]
                if kind == "global":
                    return [(st, self.get_global(st, val), None)]
            return [(st, VDotted(path), None)]
        if isinstance(obj, V) and isinstance(obj.sort, RefSort):
            cls = obj.sort.cls
            if attr == "logger":
                return [(st, VDotted("logger"), None)]
            # property getter?
            getter = self.ctx.find_method(cls, f"{attr}.__get__")
            if getter:
                self.safety_nonnull(st, obj, node)
                return self.call_contract(st, self.ctx.contracts[getter], obj, [], {}, node)
            d = self.ctx.field_decl(cls, attr)
            if d is not None:
                self.safety_nonnull(st, obj, node)
                if self.ctx.field_decl(cls, f"?{attr}") is not None:
                    self.oblige(st, f"{self.label}: safety: attribute .{attr} exists on the {cls} object (line +{node.lineno - self.fn.lineno})",
                                self.read_field(st, obj, f"?{attr}").z, "safety", node.lineno)
                return [(st, self.read_field(st, obj, attr), None)]
            m = self.ctx.find_method(cls, attr)
            if m:
                self.safety_nonnull(st, obj, node)
                return [(st, VFunc(m, obj), None)]
            if attr == "__dict__":
                return [(st, VDictOf(obj), None)]
            if attr == "__class__":
                return [(st, VOpaque(f"type({cls})"), None)]
            cv = self.class_const(cls, attr)
            if cv is not None:
                return [(st, cv, None)]
            raise Unsupported(f"attribute {cls}.{attr} is neither a declared field nor a contracted method "
                              f"(contract/code mismatch, line {node.lineno})")
        if isinstance(obj, V) and isinstance(obj.sort, UnionSort):
            self.oblige(st, f"{self.label}: safety: .{attr} read on a str-or-{obj.sort.cls} value that is a {obj.sort.cls} here (line +{node.lineno - self.fn.lineno})",
                        obj.comps[0], "safety", node.lineno)
            return self.get_attr(st, V(RefSort(obj.sort.cls), [obj.comps[2]]), attr, node)
        if isinstance(obj, VFunc) and attr == "__func__":
            return [(st, obj, None)]
        raise Unsupported(f"attribute .{attr} of {obj} (line {node.lineno})")

    def class_const(self, cls, attr):
        """class-level constant assignment read from the source (walks the declared bases)"""
        for c in self.ctx.mro(cls):
            short = c.split(".")[-1]
            for n in ast.walk(self.src.tree):
                if isinstance(n, ast.ClassDef) and n.name == short:
                    for b in n.body:
                        if isinstance(b, ast.Assign) and len(b.targets) == 1 and isinstance(b.targets[0], ast.Name) \
                                and b.targets[0].id == attr and isinstance(b.value, ast.Constant):
                            return const_value(b.value.value)
        return None

    def ex_UnaryOp(self, node, st):
        res = []
        for s2, v, e in self.ev(node.operand, st):
            if e is not None:
                res.append((s2, None, e))
            elif isinstance(node.op, ast.Not):
                res.append((s2, vbool(z3.Not(truth(v))), None))
            elif isinstance(node.op, ast.USub):
                res.append((s2, V(v.sort, [-v.z]), None))
            else:
                raise Unsupported("unary op")
        return res

    def ex_BinOp(self, node, st):
        res = []
        for s2, (a, b), e in self.ev_many([node.left, node.right], st):
            if e is not None:
                res.append((s2, None, e))
                continue
            if isinstance(node.op, ast.Div):
                bz = to_real(b)
                nz = z3.simplify(bz != 0)
                if not z3.is_true(nz):
                    if self.feasible(s2, z3.Not(nz)):
                        zs = s2.fork()
                        zs.assume(z3.Not(nz))
                        zs.trace.append((node.lineno, "div0"))
                        res.append((zs, None, "ZeroDivisionError"))
                    s2 = s2.fork()
                    s2.assume(nz)
            if isinstance(node.op, ast.Mod) and isinstance(a, V) and a.sort == STR:
                self.dropped.add("%-formatting results (treated as an opaque string)")
                res.append((s2, STR.fresh("fmt"), None))
                continue
            res.append((s2, binop(node.op, a, b, lambda n, f: (s2.assume(f) if n == "__assume__" else
                                                           self.oblige(s2, f"{self.label}: safety: {n} (line +{node.lineno - self.fn.lineno})", f, "safety", node.lineno))), None))
        return res

    def ex_BoolOp(self, node, st):
        """`a and b` / `a or b` with value semantics and short-circuit evaluation: operands with side effects are only
        evaluated on the paths that reach them (fork); pure operands are translated under a guard (for their safety
        obligations) without forking."""
        is_and = isinstance(node.op, ast.And)

        def go(k, s, acc, vals):
            # acc: z3 Bool "evaluation reaches operand k"; vals: [(truth, value)] of the operands evaluated so far
            if k == len(node.values):
                return [(s, vals, None)]
            if z3.is_false(z3.simplify(acc)):
                return [(s, vals, None)]
            out = []
            if _is_pure(node.values[k]):
                s.guards.append(acc)
                try:
                    rs = self.ev(node.values[k], s)
                finally:
                    s.guards.pop()
                for s2, v, e in rs:
                    if e is not None:
                        out.append((s2, None, e))
                        continue
                    t = truth(v)
                    out += go(k + 1, s2, z3.And(acc, t if is_and else z3.Not(t)), vals + [(t, v)])
            else:
                g = z3.simplify(acc)
                if self.feasible(s, g):
                    t_st = s.fork()
                    t_st.assume(g)
                    for s2, v, e in self.ev(node.values[k], t_st):
                        if e is not None:
                            out.append((s2, None, e))
                            continue
                        t = truth(v)
                        out += go(k + 1, s2, t if is_and else z3.Not(t), vals + [(t, v)])
                ng = z3.simplify(z3.Not(g))
                if not z3.is_false(ng) and self.feasible(s, ng):
                    f_st = s.fork()
                    f_st.assume(ng)
                    out.append((f_st, vals, None))
            return out

        res = []
        for s2, vals, e in go(0, st, z3.BoolVal(True), []):
            if e is not None:
                res.append((s2, None, e))
                continue
            # result: the first operand that decides, else the last one evaluated
            if getattr(node, "_as_bool", False):      # used as a condition: only the truth values matter
                vals = [(t, vbool(t)) for t, _v in vals]
            t_last, val = vals[-1]
            for t, v in reversed(vals[:-1]):
                decides = z3.Not(t) if is_and else t
                if (not is_and) and isinstance(v, V) and isinstance(v.sort, OptSort) and isinstance(val, V) and val.sort == v.sort.inner:
                    v = V(v.sort.inner, v.comps[1:])      # a truthy Optional is not None
                if all(isinstance(x, V) and x.sort == BOOL for x in (v, val)):
                    val = vbool(z3.If(decides, v.z, val.z))
                else:
                    val = v_ite(decides, v, val) if isinstance(v, V) and isinstance(val, V) else _pyval_or(decides, v, val)
            res.append((s2, val, None))
        return res

    def ex_Compare(self, node, st):
        res = []
        for s2, vals, e in self.ev_many([node.left] + node.comparators, st):
            if e is not None:
                res.append((s2, None, e))
                continue
            cs = []
            for op, a, b in zip(node.ops, vals, vals[1:]):
                if isinstance(op, (ast.Is, ast.IsNot)):
                    # identity against a class / typing construct named by a dotted path: its (uninterpreted) class constant
                    if isinstance(a, VDotted) and isinstance(b, V) and isinstance(b.sort, RefSort):
                        a = vref(z3.Const(f"class.{a.path}", Ref), b.sort.cls)
                    elif isinstance(b, VDotted) and isinstance(a, V) and isinstance(a.sort, RefSort):
                        b = vref(z3.Const(f"class.{b.path}", Ref), a.sort.cls)
                if isinstance(op, (ast.In, ast.NotIn)):
                    c = self.contains(s2, a, b, node)
                    cs.append(z3.Not(c) if isinstance(op, ast.NotIn) else c)
                else:
                    cs.append(compare(op, a, b))
            res.append((s2, vbool(z3.And(*cs) if len(cs) > 1 else cs[0]), None))
        return res

    def contains(self, st, a, b, node):
        if isinstance(b, VPyTuple):
            if isinstance(a, V) and isinstance(a.sort, RefSort) and b.items and all(isinstance(x, (VBuiltin, VDotted)) for x in b.items):
                # membership in a tuple of classes named in the source: identity with their (uninterpreted) class constants
                return z3.Or(*[a.z == z3.Const(f"class.builtins.{x.name}" if isinstance(x, VBuiltin) else f"class.{x.path}", Ref) for x in b.items])
            return z3.Or(*[v_eq(a, x) for x in b.items]) if b.items else z3.BoolVal(False)
        if isinstance(b, V) and isinstance(b.sort, MapSort):
            if isinstance(a, V) and isinstance(a.sort, OptSort):
                return z3.And(z3.Not(a.comps[0]), map_has(b, coerce(V(a.sort.inner, a.comps[1:]), b.sort.key)))
            return map_has(b, coerce(a, b.sort.key))
        if isinstance(b, V) and b.sort == STR and a.sort == STR:
            return z3.Contains(b.z, a.z)
        if isinstance(b, V) and isinstance(b.sort, SeqSort) and len(b.sort.elem.comps()) == 1:
            if isinstance(a, V) and isinstance(a.sort, OptSort) and not isinstance(b.sort.elem, OptSort):
                return z3.And(z3.Not(a.comps[0]), self.contains(st, V(a.sort.inner, a.comps[1:]), b, node))     # None is not an element
            i = z3.Int(fresh_name("in_i"))
            a2 = coerce(a, b.sort.elem)
            n = z3.simplify(b.comps[0])
            if z3.is_int_value(n) and n.as_long() <= 8:       # a list literal: expand
                return z3.Or(*[z3.Select(b.comps[1], k) == a2.z for k in range(n.as_long())]) if n.as_long() else z3.BoolVal(False)
            return z3.Exists([i], z3.And(i >= 0, i < b.comps[0], z3.Select(b.comps[1], i) == a2.z))
        raise Unsupported(f"'in' on {b} (line {node.lineno})")

    def ex_IfExp(self, node, st):
        res = []
        for s2, c, e in self.ev_cond(node.test, st):
            if e is not None:
                res.append((s2, None, e))
                continue
            if _is_pure(node.body) and _is_pure(node.orelse):
                for s3, (a, b), e3 in self.ev_many([node.body, node.orelse], s2):
                    if e3 is None and not (isinstance(a, V) and isinstance(b, V)):
                        # python-level alternatives (bound methods, classes ...): one path per alternative
                        if self.feasible(s3, c):
                            t = s3.fork(); t.assume(c); res.append((t, a, None))
                        if self.feasible(s3, z3.Not(c)):
                            f_ = s3.fork(); f_.assume(z3.Not(c)); res.append((f_, b, None))
                        continue
                    res.append((s3, v_ite(c, a, b) if e3 is None else None, e3))
            else:
                if self.feasible(s2, c):
                    t = s2.fork(); t.assume(c)
                    res += self.ev(node.body, t)
                if self.feasible(s2, z3.Not(c)):
                    f = s2.fork(); f.assume(z3.Not(c))
                    res += self.ev(node.orelse, f)
        return res

    def ex_Tuple(self, node, st):
        res = []
        for s2, vals, e in self.ev_many(node.elts, st):
            res.append((s2, VPyTuple(vals) if e is None else None, e))
        return res

    def ex_List(self, node, st):
        if not node.elts:
            return [(st, V(SeqSort(NONE), [z3.IntVal(0)]), None)]
        res = []
        for s2, vals, e in self.ev_many(node.elts, st):
            if e is not None:
                res.append((s2, None, e))
                continue
            if any(isinstance(v, VPyTuple) and any(isinstance(i, PyVal) for i in v.items) or (isinstance(v, PyVal) and not isinstance(v, VPyTuple)) for v in vals):
                res.append((s2, VPyList(vals), None))       # python-level elements (callables ...): given a sort when stored into a declared field
                continue
            vals = [vtuple(v.items) if isinstance(v, VPyTuple) else v for v in vals]
            seq = seq_empty(vals[0].sort)
            for v in vals:
                seq = seq_append(seq, v)
            res.append((s2, seq, None))
        return res

    def ex_Dict(self, node, st):
        if node.keys:
            self.dropped.add("non-empty dict literals (kept as opaque python values; only passed around)")
            res = []
            for s2, vals, e in self.ev_many([v for v in node.values], st):
                res.append((s2, VOpaque(f"dict literal at line {node.lineno}") if e is None else None, e))
            return res
        return [(st, VEmptyDict(), None)]

    def ex_JoinedStr(self, node, st):
        parts = []
        for v in node.values:
            if isinstance(v, ast.Constant):
                parts.append(v)
            elif isinstance(v, ast.FormattedValue):
                if v.format_spec is not None or v.conversion != -1:
                    self.dropped.add("f-string format specs/conversions (result treated as an opaque string)")
                    return [(st, STR.fresh("fstr"), None)]
                parts.append(v.value)
        res = []
        for s2, vals, e in self.ev_many(parts, st):
            if e is not None:
                res.append((s2, None, e))
                continue
            vals = [V(x.sort.inner, x.comps[1:]) if isinstance(x, V) and isinstance(x.sort, OptSort) and x.sort.inner == STR and
                    (self.oblige(s2, f"{self.label}: safety: Optional string formatted here is not None (line +{node.lineno - self.fn.lineno})", z3.Not(x.comps[0]), "safety", node.lineno) or True)
                    else x for x in vals]
            if not all(isinstance(x, V) and x.sort == STR for x in vals):
                self.dropped.add("f-strings over non-string values (result treated as an opaque string)")
                res.append((s2, STR.fresh("fstr"), None))
                continue
            z = vals[0].z
            for x in vals[1:]:
                z = z3.Concat(z, x.z)
            res.append((s2, vstr(z), None))
        return res

    def ex_Subscript(self, node, st):
        res = []
        if isinstance(node.slice, ast.Slice):
            sl = node.slice
            for s2, v, e in self.ev(node.value, st):
                if e is not None:
                    res.append((s2, None, e))
                    continue
                if isinstance(v, V) and v.sort == STR and sl.step is None and sl.upper is None \
                        and isinstance(sl.lower, ast.Constant) and isinstance(sl.lower.value, int) and sl.lower.value >= 0:
                    k = sl.lower.value
                    n = z3.Length(v.z)
                    res.append((s2, vstr(z3.If(n >= k, z3.SubString(v.z, k, n - k), z3.StringVal(""))), None))
                elif isinstance(v, V) and v.sort == STR and sl.step is None and sl.lower is None \
                        and isinstance(sl.upper, ast.UnaryOp) and isinstance(sl.upper.op, ast.USub) \
                        and isinstance(sl.upper.operand, ast.Constant):
                    k = sl.upper.operand.value
                    n = z3.Length(v.z)
                    res.append((s2, vstr(z3.If(n >= k, z3.SubString(v.z, 0, n - k), z3.StringVal(""))), None))
                else:
                    raise Unsupported(f"slice at line {node.lineno}")
            return res
        for s2, (cont, idx), e in self.ev_many([node.value, node.slice], st):
            if e is not None:
                res.append((s2, None, e))
                continue
            res += self.subscript(s2, cont, idx, node)
        return res

    def subscript(self, st, cont, idx, node):
        if isinstance(cont, VConstSeq):
            i = coerce(idx, BV)
            self.oblige(st, f"{self.label}: safety: index in range of {len(cont.values)}-entry table (line +{node.lineno - self.fn.lineno})",
                        z3.ULT(i.z, z3.BitVecVal(len(cont.values), BVW)), "safety", node.lineno)
            return [(st, vbv(cont.lookup_bv(i.z)), None)]
        if isinstance(cont, V) and isinstance(cont.sort, SeqSort):
            i = coerce(idx, INT)
            self.oblige(st, f"{self.label}: safety: sequence index in range (line +{node.lineno - self.fn.lineno})",
                        z3.And(i.z >= 0, i.z < cont.comps[0]), "safety", node.lineno)
            return [(st, seq_get(cont, i.z), None)]
        if isinstance(cont, V) and isinstance(cont.sort, MapSort):
            if isinstance(idx, V) and isinstance(idx.sort, UnionSort) and cont.sort.key == STR:
                self.oblige(st, f"{self.label}: safety: dict key is a str here (line +{node.lineno - self.fn.lineno})",
                            z3.Not(idx.comps[0]), "safety", node.lineno)
                idx = vstr(idx.comps[1])
            if isinstance(idx, V) and isinstance(idx.sort, OptSort):
                self.oblige(st, f"{self.label}: safety: dict key is not None here (line +{node.lineno - self.fn.lineno})",
                            z3.Not(idx.comps[0]), "safety", node.lineno)
                idx = V(idx.sort.inner, idx.comps[1:])
            k = coerce(idx, cont.sort.key)
            has = map_has(cont, k)
            res = []
            if self.feasible(st, z3.Not(has)):
                f = st.fork(); f.assume(z3.Not(has))
                res.append((f, None, "KeyError"))
            t = st.fork(); t.assume(has)
            res.append((t, map_get(cont, k), None))
            return res
        if isinstance(cont, VPyTuple) and isinstance(node.slice, ast.Constant):
            return [(st, cont.items[node.slice.value], None)]
        if isinstance(cont, V) and isinstance(cont.sort, TupleSort) and isinstance(node.slice, ast.Constant):
            return [(st, tuple_items(cont)[node.slice.value], None)]
        raise Unsupported(f"subscript of {cont} (line {node.lineno})")

    def ex_Lambda(self, node, st):
        self.dropped.add("lambda bodies (calling one is unsupported)")
        return [(st, VOpaque(f"lambda at line {node.lineno}"), None)]

    # ---------------------------------------------------------------- calls
    def ex_Call(self, node, st):
        f = node.func
        ftxt = ast.unparse(f)
        if (self.src.relpath, ftxt) in self.ctx.event_calls:
            self.dropped.add(f"arguments of {ftxt}(...) (the call itself is an event with a contract)")
            return self.call_contract(st, self.ctx.contracts[self.ctx.event_calls[(self.src.relpath, ftxt)]], None, [], {}, node)
        if isinstance(f, ast.Attribute) and f.attr == "update" and isinstance(f.value, ast.Attribute) and f.value.attr == "__dict__":
            cn = self.ctx.dyn_getattr.get((self.contract.source, "__dict__.update")) or self.ctx.dyn_getattr.get("__dict__.update")
            if cn is None:
                raise Unsupported(f"obj.__dict__.update(...) without a DYN_GETATTR contract (line {node.lineno})")
            res = []
            for s2, vals, e in self.ev_many([f.value.value] + list(node.args), st):
                if e is not None:
                    res.append((s2, None, e)); continue
                res += self.call_contract(s2, self.ctx.contracts[cn], None, vals, {}, node)
            return res
        ov = self.ctx.call_overrides.get((self.contract.source, f"{ftxt}/{len(node.args) + len(node.keywords)}")) or self.ctx.call_overrides.get((self.contract.source, ftxt))
        if ov is not None:
            # a sidecar-declared contract for this particular call expression (reflection, **kwargs calls)
            argn = list(node.args) + [k.value for k in node.keywords]
            res = []
            def _ov_arg(a):
                if isinstance(a, ast.Starred):
                    return a.value
                if isinstance(a, ast.Call) and isinstance(a.func, ast.Attribute) and a.func.attr == "items" and not a.args and not a.keywords:
                    return a.func.value       # f(d.items()): the override contract receives the dict itself
                return a
            for s2, vals, e in self.ev_many([_ov_arg(a) for a in argn], st):
                if e is not None:
                    res.append((s2, None, e)); continue
                recv = []
                if isinstance(f, ast.Name) and f.id in s2.locals:
                    recv = [s2.locals[f.id]]        # a local holding the callee (e.g. the class being instantiated)
                res += self.call_contract(s2, self.ctx.contracts[ov], None, recv + vals, {}, node)
            return res
        if isinstance(f, ast.Attribute) and f.attr == "pop" and 1 <= len(node.args) <= 2 and not node.keywords:
            r = self.try_dict_pop(node, st)
            if r is not None:
                return r
        if isinstance(f, ast.Attribute) and f.attr in ("startswith", "endswith") and len(node.args) == 1 and not node.keywords:
            res = []
            for s2, vals, e in self.ev_many([f.value, node.args[0]], st):
                if e is not None:
                    res.append((s2, None, e)); continue
                a, b = vals
                if isinstance(a, V) and a.sort == STR and isinstance(b, V) and b.sort == STR:
                    res.append((s2, vbool(z3.PrefixOf(b.z, a.z) if f.attr == "startswith" else z3.SuffixOf(b.z, a.z)), None))
                else:
                    raise Unsupported(f".{f.attr} on {a} (line {node.lineno})")
            return res
        if isinstance(f, ast.Attribute) and f.attr == "replace" and len(node.args) == 3 and not node.keywords and isinstance(node.args[2], ast.Constant) and node.args[2].value == 1:
            res = []
            ok = True
            for s2, vals, e in self.ev_many([f.value, node.args[0], node.args[1]], st):
                if e is not None:
                    res.append((s2, None, e)); continue
                if all(isinstance(x, V) and x.sort == STR for x in vals):
                    res.append((s2, vstr(z3.Replace(vals[0].z, vals[1].z, vals[2].z)), None))     # str.replace(a, b, 1): the first occurrence only (SMT-LIB str.replace)
                else:
                    ok = False
            if ok:
                return res
        if isinstance(f, ast.Attribute) and f.attr == "split" and len(node.args) == 1 and not node.keywords:
            res = []
            handled = True
            for s2, vals, e in self.ev_many([f.value, node.args[0]], st):
                if e is not None:
                    res.append((s2, None, e)); continue
                if all(isinstance(x, V) and x.sort == STR for x in vals):
                    # str.split(sep): only "a non-empty list of strings" is modelled (builtin, assumed)
                    r = SeqSort(STR).fresh("split")
                    s2.assume(r.comps[0] >= 1)
                    self.dropped.add("str.split(sep): result modelled as an arbitrary non-empty list of strings")
                    res.append((s2, r, None))
                else:
                    handled = False
            if handled:
                return res
        if isinstance(f, ast.Attribute) and f.attr == "join" and len(node.args) == 1 and isinstance(f.value, ast.Constant) and isinstance(f.value.value, str):
            res = []
            for s2, v, e in self.ev(node.args[0], st):
                if e is not None:
                    res.append((s2, None, e)); continue
                if isinstance(v, V) and isinstance(v.sort, SeqSort) and v.sort.elem == STR:
                    res.append((s2, vstr(STR_JOIN(z3.StringVal(f.value.value), v.comps[0], v.comps[1])), None))
                else:
                    raise Unsupported(f"str.join over {v} (line {node.lineno})")
            return res
        if isinstance(f, ast.Attribute) and f.attr == "update" and len(node.args) == 1 and not node.keywords and not (isinstance(f.value, ast.Attribute) and f.value.attr == "__dict__"):
            r = self.try_dict_update(node, st)
            if r is not None:
                return r
        if isinstance(f, ast.Attribute) and f.attr == "get" and 1 <= len(node.args) <= 2 and not node.keywords:
            r = self.try_dict_get(node, st)
            if r is not None:
                return r
        # list mutators on locals / fields: x.append(v), x.clear()
        if isinstance(f, ast.Attribute) and f.attr in ("append", "clear", "extend") and not self.is_noop_call(f, st):
            r = self.try_list_method(node, st)
            if r is not None:
                return r
        # no-op calls whose arguments are not evaluated (logging)
        if self.is_noop_call(f, st):
            self.dropped.add("logger.* / print calls (arguments not evaluated)")
            return [(st, VNONE, None)]
        if isinstance(f, ast.Name) and f.id == "super" and not node.args:
            return [(st, VSuper(st.locals["self"], self.defcls), None)]
        res = []
        for s2, fv, e in self.ev(f, st):
            if e is not None:
                res.append((s2, None, e))
                continue
            if isinstance(fv, VBuiltin):
                res += self.call_builtin(s2, fv.name, node)
                continue
            if any(isinstance(a, ast.Starred) for a in node.args) or any(k.arg is None for k in node.keywords):
                raise Unsupported(f"*args/**kwargs call at line {node.lineno}")
            argnodes = list(node.args) + [k.value for k in node.keywords]
            for s3, vals, e3 in self.ev_many(argnodes, s2):
                if e3 is not None:
                    res.append((s3, None, e3))
                    continue
                pos = vals[:len(node.args)]
                kw = {k.arg: v for k, v in zip(node.keywords, vals[len(node.args):])}
                res += self.call_value(s3, fv, pos, kw, node)
        return res

    def try_dict_update(self, node, st):
        """d.update(other) for map values: the result is a fresh map constrained by the (assumed, builtin) semantics of dict.update:
        union of the domains, other's value wins, keys already present keep their position, new keys come after them"""
        f = node.func
        res = []
        for s2, vals, e in self.ev_many([f.value, node.args[0]], st):
            if e is not None:
                res.append((s2, None, e)); continue
            m, o = vals
            if not (isinstance(m, V) and isinstance(m.sort, MapSort) and isinstance(o, V) and isinstance(o.sort, MapSort) and m.sort == o.sort):
                return None
            new = m.sort.fresh("upd")
            d1, v1, k1 = map_parts(m); d2, v2, k2 = map_parts(o); d3, v3, k3 = map_parts(new)
            k = z3.Const(fresh_name("updk"), m.sort.key.comps()[0])
            i, j = z3.Int(fresh_name("updi")), z3.Int(fresh_name("updj"))
            s2.assume(z3.ForAll([k], z3.Select(d3, k) == z3.Or(z3.Select(d1, k), z3.Select(d2, k))))
            for a1, a2, a3 in zip(v1, v2, v3):
                s2.assume(z3.ForAll([k], z3.Select(a3, k) == z3.If(z3.Select(d2, k), z3.Select(a2, k), z3.Select(a1, k))))
            s2.assume(z3.And(k3.comps[0] >= k1.comps[0], k3.comps[0] <= k1.comps[0] + k2.comps[0]))
            s2.assume(z3.ForAll([i], z3.Implies(z3.And(0 <= i, i < k1.comps[0]), z3.Select(k3.comps[1], i) == z3.Select(k1.comps[1], i))))
            idx2 = z3.Function(fresh_name("upd_idx"), m.sort.key.comps()[0], z3.IntSort())
            s2.assume(z3.ForAll([i], z3.Implies(z3.And(0 <= i, i < k2.comps[0]), idx2(z3.Select(k2.comps[1], i)) == i), patterns=[z3.Select(k2.comps[1], i)]))
            s2.assume(z3.ForAll([i, j], z3.Implies(z3.And(k1.comps[0] <= i, i < j, j < k3.comps[0]), idx2(z3.Select(k3.comps[1], i)) < idx2(z3.Select(k3.comps[1], j)))))
            s2.assume(z3.Implies(k1.comps[0] == 0, z3.And(k3.comps[0] == k2.comps[0],
                                                             z3.ForAll([i], z3.Implies(z3.And(0 <= i, i < k2.comps[0]), z3.Select(k3.comps[1], i) == z3.Select(k2.comps[1], i))))))
            # the new map is again a proper dict
            s2.assume(z3.ForAll([i, j], z3.Implies(z3.And(0 <= i, i < j, j < k3.comps[0]), z3.Select(k3.comps[1], i) != z3.Select(k3.comps[1], j))))
            s2.assume(z3.ForAll([i], z3.Implies(z3.And(0 <= i, i < k3.comps[0]), z3.Select(d3, z3.Select(k3.comps[1], i))), patterns=[z3.Select(k3.comps[1], i)]))
            s2.assume(z3.ForAll([k], z3.Implies(z3.Select(d3, k), z3.Exists([i], z3.And(0 <= i, i < k3.comps[0], z3.Select(k3.comps[1], i) == k))), patterns=[z3.Select(d3, k)]))
            self.dropped.add("dict.update(other) body: replaced by the assumed builtin semantics (union, other wins, existing keys keep their position)")
            for s3 in self.assign_to(_as_store(f.value), new, s2):
                res.append((s3, VNONE, None) if not isinstance(s3, Outcome) else (s3.st, None, s3.exc))
        return res

    def try_dict_pop(self, node, st):
        """d.pop(k, default): value (or default) and the map without k (assumed builtin semantics; other keys keep their relative order)"""
        f = node.func
        res = []
        for s2, vals, e in self.ev_many([f.value] + list(node.args), st):
            if e is not None:
                res.append((s2, None, e)); continue
            m = vals[0]
            if not (isinstance(m, V) and isinstance(m.sort, MapSort)) or len(vals) < 3:
                return None
            k = coerce(vals[1], m.sort.key)
            dflt = coerce(vals[2], m.sort.val)
            had, val = map_has(m, k), map_get(m, k)
            new = m.sort.fresh("pop")
            d1, v1, k1 = map_parts(m); d3, v3, k3 = map_parts(new)
            q = z3.Const(fresh_name("popk"), m.sort.key.comps()[0])
            i, j = z3.Int(fresh_name("popi")), z3.Int(fresh_name("popj"))
            s2.assume(z3.ForAll([q], z3.Select(d3, q) == z3.And(z3.Select(d1, q), q != k.z)))
            for a1, a3 in zip(v1, v3):
                s2.assume(z3.ForAll([q], z3.Implies(q != k.z, z3.Select(a3, q) == z3.Select(a1, q))))
            s2.assume(k3.comps[0] == k1.comps[0] - z3.If(had, 1, 0))
            s2.assume(z3.Implies(z3.Not(had), z3.ForAll([i], z3.Implies(z3.And(0 <= i, i < k1.comps[0]), z3.Select(k3.comps[1], i) == z3.Select(k1.comps[1], i)))))
            s2.assume(z3.ForAll([i, j], z3.Implies(z3.And(0 <= i, i < j, j < k3.comps[0]), z3.Select(k3.comps[1], i) != z3.Select(k3.comps[1], j))))
            s2.assume(z3.ForAll([i], z3.Implies(z3.And(0 <= i, i < k3.comps[0]), z3.Select(d3, z3.Select(k3.comps[1], i)))))
            s2.assume(z3.ForAll([q], z3.Implies(z3.Select(d3, q), z3.Exists([i], z3.And(0 <= i, i < k3.comps[0], z3.Select(k3.comps[1], i) == q)))))
            self.dropped.add("dict.pop(k, default) body: replaced by the assumed builtin semantics")
            for s3 in self.assign_to(_as_store(f.value), new, s2):
                res.append((s3, v_ite(had, val, dflt), None) if not isinstance(s3, Outcome) else (s3.st, None, s3.exc))
        return res

    def try_dict_get(self, node, st):
        """d.get(k[, default]) on a map value"""
        f = node.func
        res = []
        for s2, vals, e in self.ev_many([f.value] + list(node.args), st):
            if e is not None:
                res.append((s2, None, e)); continue
            m = vals[0]
            if not (isinstance(m, V) and isinstance(m.sort, MapSort)):
                return None
            k = vals[1]
            dflt = vals[2] if len(vals) > 2 else VNONE
            if isinstance(k, V) and isinstance(k.sort, OptSort):
                has = z3.And(z3.Not(k.comps[0]), map_has(m, coerce(V(k.sort.inner, k.comps[1:]), m.sort.key)))
                val = map_get(m, coerce(V(k.sort.inner, k.comps[1:]), m.sort.key))
            else:
                k = coerce(k, m.sort.key)
                has, val = map_has(m, k), map_get(m, k)
            res.append((s2, v_ite(has, val, coerce(dflt, val.sort) if isinstance(dflt, V) else dflt), None))
        return res

    def try_list_method(self, node, st):
        f = node.func
        res = []
        for s2, cont, e in self.ev(f.value, st):
            if e is not None:
                res.append((s2, None, e)); continue
            if not (isinstance(cont, V) and isinstance(cont.sort, SeqSort)):
                return None
            if f.attr == "clear":
                new = V(cont.sort, [z3.IntVal(0)] + cont.comps[1:])
                for s3 in self.assign_to(_as_store(f.value), new, s2):
                    res.append((s3, VNONE, None) if not isinstance(s3, Outcome) else (s3.st, None, s3.exc))
                continue
            for s3, v, e3 in self.ev(node.args[0], s2):
                if e3 is not None:
                    res.append((s3, None, e3)); continue
                if f.attr == "extend":
                    if not (isinstance(v, V) and isinstance(v.sort, SeqSort)):
                        raise Unsupported(f"list.extend with {v} (line {node.lineno})")
                    c2 = seq_empty(v.sort.elem) if cont.sort.elem == NONE else cont
                    if c2.sort != v.sort:
                        raise Unsupported(f"list.extend of {c2.sort} with {v.sort} (line {node.lineno})")
                    new = c2.sort.fresh("ext")       # concatenation (builtin semantics): a fresh sequence constrained pointwise
                    qi = z3.Int(fresh_name("exti"))
                    s3.assume(new.comps[0] == c2.comps[0] + v.comps[0])
                    for na, oa, va in zip(new.comps[1:], c2.comps[1:], v.comps[1:]):
                        s3.assume(z3.ForAll([qi], z3.Implies(z3.And(qi >= 0, qi < c2.comps[0]), z3.Select(na, qi) == z3.Select(oa, qi))))
                        s3.assume(z3.ForAll([qi], z3.Implies(z3.And(qi >= c2.comps[0], qi < new.comps[0]), z3.Select(na, qi) == z3.Select(va, qi - c2.comps[0])), patterns=[z3.Select(na, qi)]))
                    for s4 in self.assign_to(_as_store(f.value), new, s3):
                        res.append((s4, VNONE, None) if not isinstance(s4, Outcome) else (s4.st, None, s4.exc))
                    continue
                if isinstance(v, VPyTuple):
                    if isinstance(cont.sort.elem, TupleSort) and len(cont.sort.elem.items) == len(v.items):
                        v = vtuple([self.wrap_callable(s3, it, es) if isinstance(it, PyVal) and isinstance(es, RefSort) and "callable_of" in self.ctx.classes.get(es.cls, {}) else it
                                    for it, es in zip(v.items, cont.sort.elem.items)])
                    else:
                        v = vtuple(v.items)
                c2 = cont
                if cont.sort.elem == NONE:   # first append to an empty literal fixes the element sort
                    c2 = seq_empty(v.sort)
                new = seq_append(c2, v)
                for s4 in self.assign_to(_as_store(f.value), new, s3):
                    res.append((s4, VNONE, None) if not isinstance(s4, Outcome) else (s4.st, None, s4.exc))
        return res

    def is_noop_call(self, f, st):
        if isinstance(f, ast.Attribute):
            base = f.value
            if isinstance(base, ast.Name) and base.id in ("logger", "logging", "warnings"):
                return True
            if isinstance(base, ast.Attribute) and base.attr == "logger":
                return True
        if isinstance(f, ast.Name) and f.id in self.ctx.noop_calls and f.id not in st.locals:
            return True
        return False

    def call_value(self, st, fv, pos, kw, node):
        if isinstance(fv, VFunc):
            c = self.ctx.contracts.get(fv.contract)
            if c is None:
                raise Unsupported(f"no contract {fv.contract}")
            return self.call_contract(st, c, fv.bound_self, pos, kw, node)
        if isinstance(fv, VDotted) and fv.path == "functools.partial":
            if not isinstance(pos[0], VFunc):
                raise Unsupported("partial of a non-contracted callable")
            return [(st, VPartial(pos[0], pos[1:]), None)]
        if isinstance(fv, VDotted):
            # constructor of a class with an __init__ contract, or an unknown external
            init = f"{fv.path}.__init__"
            if init in self.ctx.contracts:
                return self.call_ctor(st, fv.path, self.ctx.contracts[init], pos, kw, node)
            if fv.path in self.ctx.contracts:
                return self.call_contract(st, self.ctx.contracts[fv.path], None, pos, kw, node)
            raise Unsupported(f"call of {fv.path} which has no (assumed) contract (line {node.lineno})")
        if isinstance(fv, V) and isinstance(fv.sort, RefSort):
            m = self.ctx.find_method(fv.sort.cls, "__call__")
            if m:
                self.oblige(st, f"{self.label}: safety: called object is not None (line +{node.lineno - self.fn.lineno})",
                            fv.z != null, "safety", node.lineno)
                return self.call_contract(st, self.ctx.contracts[m], fv, pos, kw, node)
        if isinstance(fv, VSuperMethod):
            return self.call_contract(st, self.ctx.contracts[fv.contract], fv.self_v, pos, kw, node)
        if isinstance(fv, VPartial):
            return self.call_value(st, fv.func, fv.args + pos, kw, node)
        raise Unsupported(f"call of {fv} (line {node.lineno})")

    def call_ctor(self, st, cls, c, pos, kw, node):
        obj = vref(z3.Const(fresh_name(f"new.{cls}"), Ref), cls)
        st.assume(obj.z != null)
        st.assume(FRESH(obj.z))
        st.new_object(obj.z)
        st.assume(z3.Not(z3.Select(st.alloc, obj.z)))      # a constructor returns an object that did not exist before
        st.alloc = z3.Store(st.alloc, obj.z, z3.BoolVal(True))
        st.born = st.born + [obj.z]
        res = []
        for s2, v, e in self.call_contract(st, c, obj, pos, kw, node):
            res.append((s2, obj if e is None else None, e))
        return res

    def bind_args(self, c, self_v, pos, kw, node, st=None):
        """bind actual arguments to the contract's parameter names"""
        names = list(c.params.keys())
        env = {}
        if self_v is not None:
            env["self"] = self_v
        if len(pos) > len(names):
            raise CallTypeError(f"too many arguments for {c.name}")
        for n, v in zip(names, pos):
            env[n] = v
        for k, v in kw.items():
            if k not in names:
                raise CallTypeError(f"{c.name} has no parameter {k}")
            env[k] = v
        for n in names:
            if n not in env:
                if n not in c.defaults:
                    raise Unsupported(f"{c.name}: argument {n} missing and no default in the contract (line {getattr(node, 'lineno', '?')})")
                env[n] = const_value(c.defaults[n])
            s = c.params[n]
            if s != "py" and isinstance(env[n], V):
                ps = parse_sort(s)
                if isinstance(env[n].sort, OptSort) and not isinstance(ps, OptSort):
                    if st is not None:
                        self.oblige(st, f"{self.label}: safety: argument {n} of {c.name} is not None (line +{getattr(node, 'lineno', self.fn.lineno) - self.fn.lineno})",
                                    z3.Not(env[n].comps[0]), "safety", getattr(node, "lineno", None))
                    env[n] = V(env[n].sort.inner, env[n].comps[1:])
                if isinstance(env[n].sort, UnionSort) and ps == STR:
                    if st is not None:
                        self.oblige(st, f"{self.label}: safety: argument {n} of {c.name} is a str here (line +{getattr(node, 'lineno', self.fn.lineno) - self.fn.lineno})",
                                    z3.Not(env[n].comps[0]), "safety", getattr(node, "lineno", None))
                    env[n] = vstr(env[n].comps[1])
                if isinstance(ps, RefSort) and isinstance(env[n].sort, RefSort) and ps.cls in self.ctx.mro(env[n].sort.cls):
                    pass    # keep the actual (more specific) class of the argument
                else:
                    env[n] = coerce(env[n], ps)
            elif s != "py" and isinstance(env[n], VPyTuple):
                ps = parse_sort(s)
                if isinstance(ps, SeqSort) and isinstance(ps.elem, RefSort) and "callable_of" in self.ctx.classes.get(ps.elem.cls, {}) and st is not None:
                    seq = seq_empty(ps.elem)
                    for item in env[n].items:
                        seq = seq_append(seq, self.wrap_callable(st, item, ps.elem) if isinstance(item, PyVal) else item)
                    env[n] = seq
                else:
                    env[n] = coerce(vtuple(env[n].items), ps)
            elif s != "py" and isinstance(env[n], PyVal) and st is not None:
                ps = parse_sort(s)
                if isinstance(ps, RefSort) and "callable_of" in self.ctx.classes.get(ps.cls, {}):
                    env[n] = self.wrap_callable(st, env[n], ps)
        return env

    def call_contract(self, st, c, self_v, pos, kw, node):
        """modular call: assert requires/site asserts, havoc frame, assume ensures; fork on raise"""
        if getattr(self, "collecting", None) is not None:
            self.collecting.add(c.name)
        try:
            env = self.bind_args(c, self_v, pos, kw, node, st)
        except CallTypeError as e:
            # CPython raises TypeError when the call does not match the callee's signature
            self.notes.append(f"call at line {getattr(node, 'lineno', '?')}: {e} -> TypeError")
            return [(st, None, "TypeError")]
        self_cls = self_v.sort.cls if self_v is not None else None
        env["__self_cls__"] = self_cls
        ln = getattr(node, "lineno", self.fn.lineno) - self.fn.lineno
        where = f"{self.label}: call {c.name} (line +{ln})"
        for k, t in list(c.requires.items()) + list(c.requires_for.get(self_cls, {}).items()):
            self.oblige(st, f"{where} requires {k}", self.spec_bool(st, t, env, None, self_cls), "requires", getattr(node, "lineno", None))
        env_site = dict(env)
        for ln_, lv_ in st.locals.items():
            if isinstance(lv_, V):
                env_site.setdefault("L_" + ln_, lv_)      # the caller's locals, for site assertions only
        for ln_ in self.fn_locals:
            if ln_ not in st.locals:
                env_site.setdefault("L_" + ln_, VUnbound(ln_))      # a caller local that is not bound at this call site: equal to nothing
        for k, t in list(c.site_asserts.items()) + list(c.site_asserts_for.get(self.receiver, {}).items()) + list(c.site_asserts_in.get(self.contract.name, {}).items()):
            self.oblige(st, f"{k} @ {where}", self.spec_bool(st, t, env_site, self.old, self_cls), "site", getattr(node, "lineno", None))
        for ox in c.assert_inv_of:
            o = self.spec(st, ox, env, None, self_cls)
            for k, t in self.ctx.invariants(o.sort.cls).items():
                self.oblige(st, f"{where} invariant {k} of {ox} before call", self.spec_bool(st, t, {"self": o}, self.old, o.sort.cls), "invariant", getattr(node, "lineno", None))
        if c.inv and not c.ctor and self_v is not None and c.kind == "repo":
            # re-entrant call of a method of the same object: its invariant is a precondition
            for k, t in self.ctx.invariants(self_cls, c.inv_exclude_pre).items():
                self.oblige(st, f"{where} invariant {k} before call", self.spec_bool(st, t, {"self": self_v}, self.old, self_cls), "invariant", getattr(node, "lineno", None))
        pre = st.snapshot()
        res = []

        def post(s, raised, exn=None):
            self.havoc_modifies(s, c.modifies, self_v, env=env)
            if c.allocates:
                na = z3.Const(fresh_name("ALLOC"), z3.ArraySort(Ref, z3.BoolSort()))
                xq = z3.Const(fresh_name("aq"), Ref)
                s.assume(z3.ForAll([xq], z3.Implies(z3.Select(s.alloc, xq), z3.Select(na, xq))))
                s.alloc = na
            e2 = dict(env)
            if raised:
                e2["exc"] = vstr(exn if isinstance(exn, str) else "UserBaseException")
            r = None
            if not raised:
                if c.pure_result:
                    r = self.spec(s, c.pure_result, e2, pre, self_cls)
                    if c.returns and c.returns != "py" and isinstance(r, V):
                        r = coerce(r, parse_sort(c.returns))
                elif c.returns and c.returns != "py":
                    r = parse_sort(c.returns).fresh(f"ret.{c.name.split('.')[-1]}")
                    if isinstance(r.sort, RefSort) and False:
                        pass
                else:
                    r = VNONE
                if c.returns_fresh and isinstance(r, V) and isinstance(r.sort, RefSort):
                    s.assume(r.z != null)
                    s.new_object(r.z)
                    s.assume(z3.Not(z3.Select(s.alloc, r.z)))
                    s.alloc = z3.Store(s.alloc, r.z, z3.BoolVal(True))
                    s.born = s.born + [r.z]
                e2["result"] = r
                clauses = dict(c.ensures)
                clauses.update(c.ensures_for.get(self_cls, {}))
                clauses.update(c.ensures_for_caller.get(self.receiver, {}))
                drop = self.contract.drop_callee_ensures.get(c.name, [])
                clauses = {k: v for k, v in clauses.items() if not any(k.startswith(x) for x in drop)}
            else:
                clauses = c.ensures_raise
            for k, t in clauses.items():
                s.assume(self.spec_bool(s, t, e2, pre, self_cls))
            for ox in c.assume_inv_of:
                o = self.spec(s, ox, env, None, self_cls)
                for k, t in self.ctx.invariants(o.sort.cls).items():
                    s.assume(self.spec_bool(s, t, {"self": o}, pre, o.sort.cls))
            if c.inv and self_v is not None and c.kind == "repo" and (not raised or c.inv_on_raise):
                excl = (list(c.inv_exclude_pre) + list(c.inv_exclude_raise)) if raised else []
                for k, t in self.ctx.invariants(self_cls, excl).items():
                    s.assume(self.spec_bool(s, t, {"self": self_v}, pre, self_cls))
            return r

        for exn in (c.raises if isinstance(c.raises, (list, tuple)) else [c.raises] if c.raises else []):
            rs = st.fork()
            rs.trace.append((getattr(node, "lineno", 0), f"{c.name} raises"))
            post(rs, True, exn)
            if self.feasible(rs):
                # user code may raise anything, including BaseException subclasses such as SystemExit: only a bare `except:` stops those
                res.append((rs, None, exn if isinstance(exn, str) else "UserBaseException"))
        ns = st.fork() if c.raises else st
        r = post(ns, False)
        if self.opts.get("reach_probe") and c.kind == "external" and isinstance(r, V) and isinstance(r.sort, (SeqSort, MapSort)):
            # vacuity guard for assumed contracts: a non-empty result must be consistent with what the contract promises
            nonempty = (r.comps[0] >= 1) if isinstance(r.sort, SeqSort) else (map_parts(r)[2].comps[0] >= 1)
            self.obligations.append(Obligation(f"{self.label}: assumed contract {c.name} admits a non-empty result (line +{getattr(node, 'lineno', self.fn.lineno) - self.fn.lineno})",
                                               list(ns.pc) + list(ns.guards) + [nonempty], z3.BoolVal(False), self.label, list(ns.trace) + [(getattr(node, "lineno", 0), f"nonempty {c.name}")], "reach", None))
        if not c.raises or self.feasible(ns):
            res.append((ns, r, None))
        return res

    # ---------------------------------------------------------------- builtins
    def call_builtin(self, st, name, node):
        res = []
        if name in ("getattr", "hasattr", "setattr"):
            return self.call_getattr(st, name, node)
        if name == "isinstance":
            return self.call_isinstance(st, node)
        for s2, vals, e in self.ev_many(node.args, st):
            if e is not None:
                res.append((s2, None, e))
                continue
            if name in ("max", "min") and len(vals) == 2:
                res.append((s2, (py_max if name == "max" else py_min)(*vals), None))
            elif name == "len" and isinstance(vals[0], V) and isinstance(vals[0].sort, SeqSort):
                res.append((s2, vint(vals[0].comps[0]), None))
            elif name == "len" and isinstance(vals[0], V) and isinstance(vals[0].sort, MapSort):
                res.append((s2, vint(map_parts(vals[0])[2].comps[0]), None))
            elif name == "len" and isinstance(vals[0], VPyTuple):
                res.append((s2, vint(len(vals[0].items)), None))
            elif name == "len" and isinstance(vals[0], V) and vals[0].sort == STR:
                res.append((s2, vint(z3.Length(vals[0].z)), None))
            elif name == "float" and is_num(vals[0]):
                res.append((s2, coerce(vals[0], REAL), None))
            elif name == "int" and isinstance(vals[0], V) and vals[0].sort == REAL:
                # int(x) truncates toward zero
                x = vals[0].z
                fl = z3.ToInt(x)
                res.append((s2, vint(z3.If(z3.Or(x >= 0, z3.ToReal(fl) == x), fl, fl + 1)), None))
            elif name == "int" and isinstance(vals[0], V) and vals[0].sort == INT:
                res.append((s2, vals[0], None))
            elif name == "round" and 1 <= len(vals) <= 2 and isinstance(vals[0], V) and vals[0].sort in (REAL, INT):
                # round(x[, n]): an uninterpreted function within half a unit of the last kept digit (n a literal) - rounding is NOT the identity
                nd = vals[1] if len(vals) == 2 else vint(0)
                rx = ROUND(to_real(vals[0]), nd.z if isinstance(nd, V) and nd.sort == INT else z3.IntVal(0))
                res.append((s2, vreal(rx), None))
            elif name == "issubclass" and len(vals) == 2 and isinstance(vals[0], V) and isinstance(vals[0].sort, RefSort) and isinstance(vals[1], (VDotted, VBuiltin)):
                cc = z3.Const(f"class.builtins.{vals[1].name}" if isinstance(vals[1], VBuiltin) else f"class.{vals[1].path}", Ref)
                res.append((s2, vbool(ISSUBCLASS(vals[0].z, cc)), None))       # uninterpreted: the class relation is the interpreter's
            elif name == "bool":
                res.append((s2, vbool(truth(vals[0])), None))
            elif name == "list" and len(vals) == 1 and isinstance(vals[0], V) and isinstance(vals[0].sort, OptSort) and isinstance(vals[0].sort.inner, SeqSort):
                isnone = vals[0].comps[0]
                if self.feasible(s2, isnone):
                    f2 = s2.fork(); f2.assume(isnone)
                    res.append((f2, None, "TypeError"))       # list(None)
                if self.feasible(s2, z3.Not(isnone)):
                    f3 = s2.fork(); f3.assume(z3.Not(isnone))
                    res.append((f3, V(vals[0].sort.inner, vals[0].comps[1:]), None))
            elif name == "list" and len(vals) == 1 and isinstance(vals[0], V) and isinstance(vals[0].sort, SeqSort):
                res.append((s2, vals[0], None))       # list(seq): a copy (sequences are values here)
            elif name == "type" and len(vals) == 1 and isinstance(vals[0], V) and vals[0].sort == NONE:
                res.append((s2, vref(z3.Const("class.NoneType", Ref), "TypeObj"), None))
            elif name == "type" and len(vals) == 1 and self.ctx.type_of and isinstance(vals[0], V) and isinstance(vals[0].sort, RefSort):
                res.append((s2, vref(TYPE_OF(vals[0].z), "TypeObj"), None))
            elif name == "type" and len(vals) == 1:
                res.append((s2, VOpaque(f"type({vals[0]})"), None))
            elif name == "abs" and is_num(vals[0]):
                res.append((s2, V(vals[0].sort, [z3.If(vals[0].z < 0, -vals[0].z, vals[0].z)]), None))
            elif name == "callable" and isinstance(vals[0], V) and isinstance(vals[0].sort, (SeqSort, MapSort)):
                res.append((s2, vbool(False), None))
            elif name == "callable" and isinstance(vals[0], V) and isinstance(vals[0].sort, RefSort):
                res.append((s2, vbool(z3.And(vals[0].z != null, CALLABLE(vals[0].z))), None))
            else:
                raise Unsupported(f"builtin {name} on {vals} (line {node.lineno})")
        return res

    def call_getattr(self, st, name, node):
        res = []
        a1 = node.args[1]
        for s2, obj, e in self.ev(node.args[0], st):
            if e is not None:
                res.append((s2, None, e))
                continue
            if isinstance(a1, ast.Constant) and isinstance(a1.value, str) and isinstance(obj, V) and isinstance(obj.sort, RefSort):
                attr = a1.value
                cls = obj.sort.cls
                d = self.ctx.field_decl(cls, f"?{attr}")  # optional attribute: declared as "?name" with a has-flag
                if d is not None:
                    has = self.read_field(s2, obj, f"?{attr}")
                    if name == "hasattr":
                        res.append((s2, has, None))
                        continue
                    if name == "getattr" and len(node.args) == 3:
                        val = self.read_field(s2, obj, attr)
                        for s3, dv, e3 in self.ev(node.args[2], s2):
                            res.append((s3, v_ite(has.z, val, dv) if e3 is None else None, e3))
                        continue
                if name == "getattr" and self.ctx.field_decl(cls, attr) is not None:
                    # declared (always present) field, possibly None-valued
                    val = self.read_field(s2, obj, attr)
                    res.append((s2, val, None))
                    continue
                if name == "getattr" and self.ctx.find_method(cls, attr):
                    res.append((s2, VFunc(self.ctx.find_method(cls, attr), obj), None))
                    continue
                raise Unsupported(f"{name}({cls}, {attr!r}): attribute not declared in the sidecar (line {node.lineno})")
            # computed attribute name: dispatch to the sidecar's contract for this function
            cn = self.ctx.dyn_getattr.get((self.contract.source, f"{name}/{len(node.args)}")) or self.ctx.dyn_getattr.get((self.contract.source, name)) or self.ctx.dyn_getattr.get(name)
            if cn is None:
                raise Unsupported(f"{name} with a computed name and no DYN_GETATTR contract (line {node.lineno})")
            for s3, vals, e3 in self.ev_many(node.args[1:], s2):
                if e3 is not None:
                    res.append((s3, None, e3))
                    continue
                res += self.call_contract(s3, self.ctx.contracts[cn], None, [obj] + vals, {}, node)
        return res

    def call_isinstance(self, st, node):
        res = []
        for s2, obj, e in self.ev(node.args[0], st):
            if e is not None:
                res.append((s2, None, e))
                continue
            tn = node.args[1]
            tname = ast.unparse(tn)
            if isinstance(obj, V) and obj.sort == BOOL and tname == "bool":
                res.append((s2, vbool(True), None)); continue
            if isinstance(obj, V) and isinstance(obj.sort, UnionSort):
                if tname == obj.sort.cls:
                    res.append((s2, vbool(obj.comps[0]), None)); continue
                if tname == "str":
                    res.append((s2, vbool(z3.Not(obj.comps[0])), None)); continue
            if isinstance(obj, V) and obj.sort == STR and tname not in ("str",):
                res.append((s2, vbool(False), None)); continue
            if isinstance(obj, V) and isinstance(obj.sort, RefSort) and self.ctx.classes.get(obj.sort.cls, {}).get("exact") \
                    and tname.split(".")[-1] in [c.split(".")[-1] for c in self.ctx.mro(obj.sort.cls)]:
                # the sidecar declares this object to be of that class
                res.append((s2, vbool(obj.z != null), None)); continue
            if isinstance(obj, V) and isinstance(obj.sort, RefSort):
                for s3, tv, e3 in self.ev(tn, s2):
                    if e3 is not None:
                        res.append((s3, None, e3)); continue
                    if isinstance(tv, VPyTuple) and tv.items and all(isinstance(x, (VBuiltin, VDotted)) or (isinstance(x, V) and isinstance(x.sort, RefSort)) for x in tv.items):
                        # isinstance(o, (A, B, ...)): any of them
                        clsref = lambda x: z3.Const(f"class.builtins.{x.name}", Ref) if isinstance(x, VBuiltin) else (z3.Const(f"class.{x.path}", Ref) if isinstance(x, VDotted) else x.z)
                        res.append((s3, vbool(z3.And(obj.z != null, z3.Or(*[ISINSTANCE(obj.z, clsref(x)) for x in tv.items]))), None)); continue
                    if isinstance(tv, VBuiltin):
                        res.append((s3, vbool(z3.And(obj.z != null, ISINSTANCE(obj.z, z3.Const(f"class.builtins.{tv.name}", Ref)))), None)); continue      # None is an instance of none of the classes used
                    if isinstance(tv, V) and isinstance(tv.sort, RefSort):
                        res.append((s3, vbool(z3.And(obj.z != null, ISINSTANCE(obj.z, tv.z))), None))
                    elif isinstance(tv, VDotted):
                        res.append((s3, vbool(z3.And(obj.z != null, ISINSTANCE(obj.z, z3.Const(f"class.{tv.path}", Ref)))), None))
                    else:
                        raise Unsupported(f"isinstance against {tv}")
                continue
            raise Unsupported(f"isinstance({obj}, {tname}) (line {node.lineno})")
        return res


STR_JOIN = z3.Function("str_join", z3.StringSort(), z3.IntSort(), z3.ArraySort(z3.IntSort(), z3.StringSort()), z3.StringSort())
FRESH = z3.Function("fresh_object", Ref, z3.BoolSort())
CALLABLE = z3.Function("is_callable", Ref, z3.BoolSort())
ISINSTANCE = z3.Function("isinstance", Ref, Ref, z3.BoolSort())
TYPE_OF = z3.Function("type_of", Ref, Ref)
ISSUBCLASS = z3.Function("issubclass", Ref, Ref, z3.BoolSort())
ROUND = z3.Function("py_round", z3.RealSort(), z3.IntSort(), z3.RealSort())


def _join_sorts(sorts, name):
    has_none = NONE in sorts
    rest = [x for x in sorts if x != NONE]
    inner = []
    for x in rest:
        if isinstance(x, OptSort):
            has_none = True
            x = x.inner
        if x not in inner:
            inner.append(x)
    if len(inner) == 2 and set(inner) == {INT, REAL}:
        inner = [REAL]
    if len(inner) == 2 and all(isinstance(x, SeqSort) for x in inner) and any(x.elem == NONE for x in inner):
        inner = [x for x in inner if x.elem != NONE]
    if len(inner) != 1:
        raise Unsupported(f"loop-carried local {name} takes values of incompatible sorts {sorts}")
    j = inner[0]
    if has_none and not isinstance(j, RefSort):
        j = OptSort(j)
    return j


def _base_name(attr_node):
    """x.f -> 'x' when the object expression is a plain local name, else None"""
    return attr_node.value.id if isinstance(attr_node.value, ast.Name) else None


class VSuper(PyVal):
    def __init__(self, self_v, cls):
        self.self_v, self.cls = self_v, cls


class VSuperMethod(PyVal):
    def __init__(self, contract, self_v):
        self.contract, self.self_v = contract, self_v


class VDictOf(PyVal):
    """obj.__dict__"""

    def __init__(self, obj):
        self.obj = obj


class VUnbound(PyVal):
    """in a site assertion: a local of the calling function that is not bound at this call site"""
    def __init__(self, name):
        self.name = name


class VPyList(PyVal):
    """a list literal with python-level elements (bound methods, tuples of them)"""
    def __init__(self, items):
        self.items = list(items)


class VEmptyDict(PyVal):
    pass


def _super_attr(self, st, obj, attr, node):
    m = self.ctx.find_method(obj.self_v.sort.cls, attr, after=obj.cls)
    if not m:
        raise Unsupported(f"super().{attr}: no contract above {obj.cls}")
    return [(st, VSuperMethod(m, obj.self_v), None)]


_orig_get_attr = Task.get_attr


def _get_attr(self, st, obj, attr, node):
    if isinstance(obj, VSuper):
        return _super_attr(self, st, obj, attr, node)
    return _orig_get_attr(self, st, obj, attr, node)


Task.get_attr = _get_attr


def assigned_names(node):
    out = set()
    for n in ast.walk(node):
        if isinstance(n, ast.Name) and isinstance(n.ctx, ast.Store):
            out.add(n.id)
    return out


def _pyval_or(c, a, b):
    c = z3.simplify(c)
    if z3.is_true(c):
        return a
    if z3.is_false(c):
        return b
    raise Unsupported("and/or over python-level values with an undecided condition")


def _as_store(t):
    t2 = ast.parse(ast.unparse(t) + " = 0").body[0].targets[0]
    return t2


class CallTypeError(Exception):
    """the actual arguments do not fit the callee's parameters: a TypeError at run time"""


class VOpaque(PyVal):
    """a python-level value the verified code only passes around (declared 'py' in the sidecar)"""

    def __init__(self, name):
        self.name = name

    def __repr__(self):
        return f"VOpaque({self.name})"


class VPartial(PyVal):
    def __init__(self, func, args):
        self.func, self.args = func, args


def _as_load(t):
    t2 = ast.parse(ast.unparse(t), mode="eval").body
    return t2


def _exc_name(node):
    if isinstance(node, ast.Call):
        node = node.func
    if isinstance(node, ast.Name):
        return node.id
    if isinstance(node, ast.Attribute):
        return node.attr
    raise Unsupported("exception expression")


def _is_pure(node):
    """no calls except a few side-effect-free builtins"""
    for n in ast.walk(node):
        if isinstance(n, ast.Call):
            f = n.func
            if isinstance(f, ast.Name) and f.id in ("len", "isinstance", "max", "min", "float", "int", "bool"):
                continue
            return False
        if isinstance(n, (ast.Lambda, ast.Await, ast.Yield, ast.NamedExpr)):
            return False
    return True


# =================================================================================================
# spec evaluator
# =================================================================================================

class SpecEval:
    def __init__(self, task, st, env, old, self_cls):
        self.t, self.st, self.env, self.old = task, st, env, old
        self.self_cls = self_cls or (env["self"].sort.cls if "self" in env and isinstance(env["self"], V) else None)
        self.in_old = False
        self.bound = {}

    def ev(self, n):
        m = getattr(self, "s_" + type(n).__name__, None)
        if m is None:
            raise Unsupported(f"spec expression {type(n).__name__}: {ast.unparse(n)}")
        return m(n)

    def b(self, n):
        v = self.ev(n)
        return truth(v) if isinstance(v, (V, PyVal)) else v

    def s_Constant(self, n):
        return const_value(n.value)

    def s_Name(self, n):
        i = n.id
        if i in self.bound:
            return self.bound[i]
        if i in self.env and self.env[i] is not None and i not in ("__self_cls__", "__loop_entry__", "__iter_start__"):
            return self.env[i]
        if self.self_cls:
            al = self.t.ctx.aliases(self.self_cls)
            if i in al:
                return self.ev(ast.parse(al[i], mode="eval").body)
        if i in self.t.ctx.globals:
            return self.t.get_global(self.st, i, self.old[1] if (self.in_old and self.old) else None)
        if i in ("True", "False", "None"):
            return const_value({"True": True, "False": False, "None": None}[i])
        if i in ("Int", "Real", "Bool", "Str", "RefS"):
            return i
        raise Unsupported(f"spec name {i!r} unknown")

    def s_Attribute(self, n):
        o = self.ev(n.value)
        if isinstance(o, VUnbound):
            return o
        if isinstance(o, V) and isinstance(o.sort, RefSort):
            heap = self.old[0] if (self.in_old and self.old) else None
            return self.t.read_field(self.st, o, n.attr, heap)
        if isinstance(o, V) and isinstance(o.sort, SeqSort) and n.attr == "len":
            return vint(o.comps[0])
        raise Unsupported(f"spec attribute {ast.unparse(n)} on {o}")

    def s_UnaryOp(self, n):
        if isinstance(n.op, ast.Not):
            return vbool(z3.Not(self.b(n.operand)))
        v = self.ev(n.operand)
        if isinstance(n.op, ast.USub):
            return V(v.sort, [-v.z])
        raise Unsupported("spec unary")

    def s_BoolOp(self, n):
        vs = [self.b(x) for x in n.values]
        return vbool(z3.And(*vs) if isinstance(n.op, ast.And) else z3.Or(*vs))

    def s_BinOp(self, n):
        a, b = self.ev(n.left), self.ev(n.right)
        return binop(n.op, a, b)

    def s_Compare(self, n):
        vals = [self.ev(n.left)] + [self.ev(c) for c in n.comparators]
        cs = []
        for op, a, b in zip(n.ops, vals, vals[1:]):
            if isinstance(a, VUnbound) or isinstance(b, VUnbound):
                cs.append(z3.BoolVal(isinstance(op, (ast.NotEq, ast.IsNot, ast.NotIn))))     # nothing equals a local that does not exist here
            elif isinstance(op, (ast.In, ast.NotIn)):
                c = self.t.contains(self.st, a, b, n)
                cs.append(z3.Not(c) if isinstance(op, ast.NotIn) else c)
            else:
                cs.append(compare(op, a, b))
        return vbool(z3.And(*cs) if len(cs) > 1 else cs[0])

    def s_IfExp(self, n):
        return v_ite(self.b(n.test), self.ev(n.body), self.ev(n.orelse))

    def s_Tuple(self, n):
        return VPyTuple([self.ev(e) for e in n.elts])

    def s_Subscript(self, n):
        if isinstance(n.slice, ast.Slice):
            c = self.ev(n.value)
            sl = n.slice
            if isinstance(c, V) and c.sort == STR and sl.step is None and sl.upper is None and isinstance(sl.lower, ast.Constant):
                k = sl.lower.value
                ln = z3.Length(c.z)
                return vstr(z3.If(ln >= k, z3.SubString(c.z, k, ln - k), z3.StringVal("")))
            raise Unsupported(f"spec slice {ast.unparse(n)}")
        c, i = self.ev(n.value), self.ev(n.slice)
        if isinstance(c, V) and isinstance(c.sort, SeqSort):
            return seq_get(c, coerce(i, INT).z)
        if isinstance(c, V) and isinstance(c.sort, MapSort):
            return map_get(c, coerce(i, c.sort.key))
        if isinstance(c, VConstSeq):
            return vbv(c.lookup_bv(coerce(i, BV).z))
        if isinstance(c, V) and isinstance(c.sort, TupleSort) and isinstance(n.slice, ast.Constant):
            return tuple_items(c)[n.slice.value]
        if isinstance(c, VPyTuple) and isinstance(n.slice, ast.Constant):
            return c.items[n.slice.value]
        raise Unsupported(f"spec subscript {ast.unparse(n)}")

    def s_Call(self, n):
        f = n.func
        name = f.id if isinstance(f, ast.Name) else None
        if name == "old":
            prev = self.in_old
            self.in_old = True
            try:
                return self.ev(n.args[0])
            finally:
                self.in_old = prev
        if name == "allocated":
            # old(allocated(o)): o existed when the function was entered
            oa = getattr(self.old, "alloc", None) if self.in_old else None      # old(allocated(o)): at function entry / at the time of the call whose postcondition this is
            if self.in_old and oa is None:
                oa = getattr(self.t, "old_alloc", None)
            return vbool(z3.Select(oa if oa is not None else self.st.alloc, self.ev(n.args[0]).z))
        if name == "entry":
            return self.t.old_locals[n.args[0].id]
        if name in ("heap_at_iter_start", "local_at_iter_start"):
            snap = self.env.get("__iter_start__")
            if snap is None:
                raise Unsupported(f"{name}() outside a loop body_post")
            prev, prev_old, prev_env = self.in_old, self.old, self.env
            if name == "local_at_iter_start":      # the value a local had when this iteration started
                e2 = dict(prev_env); e2.update(snap[1])
                self.env = e2
            else:                                  # current locals, heap/ghost state as it was when this iteration started
                self.in_old, self.old = True, snap[0]
            try:
                return self.ev(n.args[0])
            finally:
                self.in_old, self.old, self.env = prev, prev_old, prev_env
        if name == "at_loop_entry":
            snap = self.env.get("__loop_entry__")
            if snap is None:
                raise Unsupported("at_loop_entry() outside a loop invariant")
            prev, prev_old = self.in_old, self.old
            self.in_old, self.old = True, snap
            try:
                return self.ev(n.args[0])
            finally:
                self.in_old, self.old = prev, prev_old
        if name == "implies":
            return vbool(z3.Implies(self.b(n.args[0]), self.b(n.args[1])))
        if name == "iff":
            return vbool(self.b(n.args[0]) == self.b(n.args[1]))
        if name == "ite":
            return v_ite(self.b(n.args[0]), self.ev(n.args[1]), self.ev(n.args[2]))
        if name in ("forall", "exists"):
            # forall(x, Sort, body) ; Sort in Int|Real|Bool|Str|Ref_<Class>
            var = n.args[0].id
            sname = ast.unparse(n.args[1])
            if sname.startswith("Ref_"):
                sort = RefSort(sname[4:])
            else:
                sort = parse_sort(sname)
            c = z3.Const(fresh_name(f"q.{var}"), sort.comps()[0])
            prevb = self.bound.get(var)
            self.bound[var] = V(sort, [c])
            try:
                body = self.b(n.args[2])
            finally:
                if prevb is None:
                    del self.bound[var]
                else:
                    self.bound[var] = prevb
            return vbool((z3.ForAll if name == "forall" else z3.Exists)([c], body))
        if name == "max":
            return py_max(self.ev(n.args[0]), self.ev(n.args[1]))
        if name == "min":
            return py_min(self.ev(n.args[0]), self.ev(n.args[1]))
        if name == "len":
            v = self.ev(n.args[0])
            if not isinstance(v, V):
                raise Unsupported(f"spec len() of a python-level value {v} (the code passes something the contract does not describe)")
            if isinstance(v.sort, SeqSort):
                return vint(v.comps[0])
            if isinstance(v.sort, MapSort):
                return vint(map_parts(v)[2].comps[0])
            if v.sort == STR:
                return vint(z3.Length(v.z))
        if name == "has":      # has(map, key)
            m, k = self.ev(n.args[0]), self.ev(n.args[1])
            return vbool(map_has(m, coerce(k, m.sort.key)))
        if name == "keys":     # keys(map) -> Seq[K]
            m = self.ev(n.args[0])
            return map_parts(m)[2]
        if name == "real":
            return coerce(self.ev(n.args[0]), REAL)
        if name == "truthy":
            return vbool(truth(self.ev(n.args[0])))
        if name == "inv":
            o = self.ev(n.args[0])
            fs = [self.t.spec_bool(self.st, t, {"self": o}, self.old if self.in_old else None, o.sort.cls)
                  for t in self.t.ctx.invariants(o.sort.cls).values()]
            return vbool(z3.And(*fs) if fs else z3.BoolVal(True))
        if name == "has_attr":
            return self.t.read_field(self.st, self.ev(n.args[0]), "?" + n.args[1].value,
                                     self.old[0] if (self.in_old and self.old) else None)
        if name == "same_map":
            a, b = self.ev(n.args[0]), self.ev(n.args[1])
            return vbool(z3.And(*[x == y for x, y in zip(a.comps, b.comps)]))
        if name == "join":
            sep, sq = self.ev(n.args[0]), self.ev(n.args[1])
            return vstr(STR_JOIN(sep.z, sq.comps[0], sq.comps[1]))
        if name == "values_at":      # values_at(map, i): value of the i-th key
            m, i = self.ev(n.args[0]), self.ev(n.args[1])
            dom, vals, keys = map_parts(m)
            return map_get(m, seq_get(keys, i.z))
        if name == "wf_map":
            m = self.ev(n.args[0])
            dom, vals, keys = map_parts(m)
            k = z3.Const(fresh_name("wfk"), m.sort.key.comps()[0])
            i, j = z3.Int(fresh_name("wfi")), z3.Int(fresh_name("wfj"))
            klen, karr = keys.comps[0], keys.comps[1]
            def has_ite(t):
                return z3.is_app(t) and (t.decl().kind() == z3.Z3_OP_ITE or any(has_ite(c) for c in t.children()))

            def fa(vs, body, pat):
                if has_ite(pat):
                    return z3.ForAll(vs, body)
                try:
                    return z3.ForAll(vs, body, patterns=[pat])
                except z3.Z3Exception:      # the pattern simplified away (e.g. a constant array): let z3 choose
                    return z3.ForAll(vs, body)
            return vbool(z3.And(klen >= 0,
                                z3.ForAll([i, j], z3.Implies(z3.And(0 <= i, i < j, j < klen), z3.Select(karr, i) != z3.Select(karr, j))),
                                fa([i], z3.Implies(z3.And(0 <= i, i < klen), z3.Select(dom, z3.Select(karr, i))), z3.Select(karr, i)),
                                fa([k], z3.Implies(z3.Select(dom, k), z3.Exists([i], z3.And(0 <= i, i < klen, z3.Select(karr, i) == k))), z3.Select(dom, k))))
        if name == "startswith":
            a, b = self.ev(n.args[0]), self.ev(n.args[1])
            return vbool(z3.PrefixOf(b.z, a.z))
        if name == "isinstance":
            a, b = self.ev(n.args[0]), self.ev(n.args[1])
            return vbool(z3.And(a.z != null, ISINSTANCE(a.z, b.z)))       # same reading as in code: None is an instance of none of the classes used
        if name == "is_type":
            return vbool(ISINSTANCE(self.ev(n.args[0]).z, z3.Const("class.builtins.type", Ref)))
        if name == "cast":
            o = self.ev(n.args[0])
            return V(RefSort(n.args[1].value), o.comps)
        if name == "is_obj":
            return vbool(self.ev(n.args[0]).comps[0])
        if name == "as_obj":
            u = self.ev(n.args[0])
            return V(RefSort(u.sort.cls), [u.comps[2]])
        if name == "as_str":
            return vstr(self.ev(n.args[0]).comps[1])
        if name == "unwrap":
            o = self.ev(n.args[0])
            return V(o.sort.inner, o.comps[1:]) if isinstance(o.sort, OptSort) else o
        if name in self.t.ctx.macros:
            params, body = self.t.ctx.macros[name]
            args = [self.ev(a) for a in n.args]
            saved = dict(self.bound)
            self.bound.update(dict(zip(params, args)))
            try:
                return self.ev(body)
            finally:
                self.bound = saved
        if name in self.t.ctx.spec_funcs:
            args = [self.ev(a) for a in n.args]
            return self.t.ctx.spec_funcs[name](*args)
        raise Unsupported(f"spec call {ast.unparse(n)}")

"""Operator semantics shared by the code executor and the spec evaluator."""
import ast
import z3
from .sorts import *


class Unsupported(Exception):
    """Construct outside the supported subset -> the check is undecided (exit 2)."""


def truth(v):
    """Python truthiness of a symbolic value as a z3 Bool."""
    if isinstance(v, PyVal):
        if isinstance(v, VPyTuple):
            return z3.BoolVal(len(v.items) > 0)
        return z3.BoolVal(True)
    s = v.sort
    if s == BOOL:
        return v.z
    if s == INT:
        return v.z != 0
    if s == REAL:
        return v.z != 0
    if s == BV:
        return v.z != 0
    if s == STR:
        return z3.Length(v.z) > 0
    if s == NONE:
        return z3.BoolVal(False)
    if isinstance(s, RefSort):
        # arbitrary objects: not None and not falsy (falsy(.) is an uninterpreted predicate)
        return z3.And(v.z != null, z3.Not(FALSY(v.z)))
    if isinstance(s, OptSort):
        return z3.And(z3.Not(v.comps[0]), truth(V(s.inner, v.comps[1:])))
    if isinstance(s, UnionSort):
        return z3.If(v.comps[0], truth(V(RefSort(s.cls), [v.comps[2]])), z3.Length(v.comps[1]) > 0)
    if isinstance(s, SeqSort):
        return v.comps[0] > 0
    if isinstance(s, MapSort):
        dom, vals, keys = map_parts(v)
        return keys.comps[0] > 0
    if isinstance(s, TupleSort):
        return z3.BoolVal(len(s.items) > 0)
    raise Unsupported(f"truth of {s}")


FALSY = z3.Function("falsy", Ref, z3.BoolSort())


def unwrap_opt(v, safety=None):
    """use of an Optional value as a number: the inner value (side condition: it is not None)"""
    if isinstance(v, V) and isinstance(v.sort, OptSort):
        if safety:
            safety("Optional value is not None here", z3.Not(v.comps[0]))
        return V(v.sort.inner, v.comps[1:])
    return v


def unify_num(a, b):
    a, b = unwrap_opt(a), unwrap_opt(b)
    if a.sort == b.sort:
        return a, b
    if a.sort == BOOL:
        a = coerce(a, INT)
    if b.sort == BOOL:
        b = coerce(b, INT)
    if a.sort == BV or b.sort == BV:
        return coerce(a, BV), coerce(b, BV)
    if a.sort == REAL or b.sort == REAL:
        return coerce(a, REAL), coerce(b, REAL)
    return a, b


def binop(op, a, b, safety=None):
    """a <op> b.  `safety(name, formula)` receives side conditions (e.g. no BV overflow)."""
    if isinstance(a, PyVal) or isinstance(b, PyVal):
        if isinstance(op, ast.Add) and isinstance(a, VPyTuple) and isinstance(b, VPyTuple):
            return VPyTuple(a.items + b.items)
        raise Unsupported(f"binop on python-level values {a} {b}")
    if a.sort == STR and b.sort == STR and isinstance(op, ast.Add):
        return vstr(z3.Concat(a.z, b.z))
    if isinstance(a.sort, SeqSort) and isinstance(b.sort, SeqSort) and isinstance(op, ast.Add) and a.sort == b.sort:
        # list concatenation: a fresh sequence constrained elementwise
        r = a.sort.fresh("concat")
        i = z3.Int(fresh_name("cci"))
        cons = [r.comps[0] == a.comps[0] + b.comps[0]]
        for ra, aa, ba in zip(r.comps[1:], a.comps[1:], b.comps[1:]):
            cons.append(z3.ForAll([i], z3.Implies(z3.And(0 <= i, i < a.comps[0]), z3.Select(ra, i) == z3.Select(aa, i))))
            cons.append(z3.ForAll([i], z3.Implies(z3.And(a.comps[0] <= i, i < r.comps[0]), z3.Select(ra, i) == z3.Select(ba, i - a.comps[0])), patterns=[z3.Select(ra, i)]))
        if safety:
            safety("__assume__", z3.And(*cons))
        return r
    if isinstance(a.sort, SeqSort) or isinstance(b.sort, SeqSort):
        raise Unsupported("sequence arithmetic")
    a, b = unwrap_opt(a, safety), unwrap_opt(b, safety)
    if isinstance(op, (ast.BitXor, ast.BitAnd, ast.BitOr, ast.RShift, ast.LShift)):
        a, b = coerce(a, BV) if a.sort != BV else a, coerce(b, BV) if b.sort != BV else b
        f = {ast.BitXor: lambda x, y: x ^ y, ast.BitAnd: lambda x, y: x & y, ast.BitOr: lambda x, y: x | y,
             ast.RShift: z3.LShR, ast.LShift: lambda x, y: x << y}[type(op)]
        if isinstance(op, ast.LShift) and safety:
            safety("bounded-int << does not overflow", z3.LShR(a.z << b.z, b.z) == a.z)
        return vbv(f(a.z, b.z))
    a, b = unify_num(a, b)
    if a.sort == BV:
        if isinstance(op, ast.Add):
            if safety:
                safety("bounded-int + does not overflow", z3.BVAddNoOverflow(a.z, b.z, False))
            return vbv(a.z + b.z)
        raise Unsupported(f"{op} on bounded ints")
    if a.sort not in (INT, REAL):
        raise Unsupported(f"arithmetic on {a.sort}")
    if isinstance(op, ast.Add):
        return V(a.sort, [a.z + b.z])
    if isinstance(op, ast.Sub):
        return V(a.sort, [a.z - b.z])
    if isinstance(op, ast.Mult):
        return V(a.sort, [a.z * b.z])
    if isinstance(op, ast.Div):
        # true division; the caller has already dealt with b == 0
        return vreal(to_real(a) / to_real(b))
    raise Unsupported(f"operator {type(op).__name__}")


def compare(op, a, b):
    if isinstance(op, (ast.Is, ast.Eq)):
        if isinstance(a, PyVal) or isinstance(b, PyVal):
            raise Unsupported("comparison of python-level values")
        if isinstance(op, ast.Is) and NONE not in (a.sort, b.sort) and not (
                isinstance(a.sort, RefSort) and isinstance(b.sort, RefSort)):
            if not (a.sort == BOOL and b.sort == BOOL):
                raise Unsupported(f"'is' between {a.sort} and {b.sort}")
        return v_eq(a, b)
    if isinstance(op, (ast.IsNot, ast.NotEq)):
        return z3.Not(compare(ast.Is() if isinstance(op, ast.IsNot) else ast.Eq(), a, b))
    if isinstance(a, PyVal) or isinstance(b, PyVal):
        raise Unsupported("ordering of python-level values")
    a, b = unify_num(a, b)
    if a.sort == BV:
        f = {ast.Lt: z3.ULT, ast.LtE: z3.ULE, ast.Gt: z3.UGT, ast.GtE: z3.UGE}[type(op)]
        return f(a.z, b.z)
    if a.sort not in (INT, REAL):
        raise Unsupported(f"ordering on {a.sort}")
    f = {ast.Lt: lambda x, y: x < y, ast.LtE: lambda x, y: x <= y,
         ast.Gt: lambda x, y: x > y, ast.GtE: lambda x, y: x >= y}[type(op)]
    return f(a.z, b.z)


def py_max(a, b):
    """max(a, b): keeps a unless b is strictly greater (CPython rule)."""
    a, b = unify_num(a, b)
    return V(a.sort, [z3.If(b.z > a.z, b.z, a.z)])


def py_min(a, b):
    a, b = unify_num(a, b)
    return V(a.sort, [z3.If(b.z < a.z, b.z, a.z)])


def const_value(c):
    if c is None:
        return VNONE
    if isinstance(c, bool):
        return vbool(c)
    if isinstance(c, int):
        return vint(c)
    if isinstance(c, float):
        return vreal(c)
    if isinstance(c, str):
        return vstr(c)
    if c is Ellipsis:
        raise Unsupported("Ellipsis")
    raise Unsupported(f"constant {c!r}")

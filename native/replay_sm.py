"""Native bounded search for C01-C04/C13 on the REAL magicbot.StateMachine / AutonomousStateMachine.

Random machine shapes (plain/timed/must_finish/default states, next_state links, all parameter orders),
random call histories and in-state action scripts (respecting the usage assumptions CB-K1/CB-A1) are run
against (a) a reference simulator of the intended semantics and (b) statement-level monitors
(regular states need engage(), state_tm >= 0, initial_call on first call after entry, no drift ...).
exit 1 = a divergence/violation was reproduced on the real code (history printed), 0 = none found.
This is a replay/search device and a bounded stand-in; it is never counted as proof."""
import itertools, json, os, random, sys
import magicbot.state_machine as smm
from magicbot import StateMachine, AutonomousStateMachine, state, timed_state, default_state
from magicbot.magic_tunable import setup_tunables

SEED = int(os.environ.get("VERIF_SEED", "0"))
N_TRIALS = int(os.environ.get("SM_TRIALS", "700")) * int(os.environ.get("VERIF_SCALE", "1"))
clock = [0.0]
smm.getTime = lambda: clock[0]
EPS = 1e-9


def fail(msg, hist):
    print("REPRODUCED:", msg)
    print("history:", json.dumps(hist)[:3000])
    sys.exit(1)


class Shape:
    def __init__(self, rnd, auto):
        n = rnd.randrange(2, 6)
        names = [f"s{i}" for i in range(n)]
        self.auto = auto
        self.states = {}
        first = rnd.randrange(n)
        for i, nm in enumerate(names):
            timed = rnd.random() < 0.5
            nxt = rnd.choice([None] + names) if timed else None
            params = list(rnd.choice([p for k in range(4) for p in itertools.permutations(["tm", "state_tm", "initial_call"], k)]))
            self.states[nm] = dict(kind="timed" if timed else "state", first=(i == first), mf=rnd.random() < 0.3,
                                   duration=rnd.choice([0.0, 0.1, 0.5, 1.0, 2.5]) if timed else None, next=nxt, params=params)
        self.default = None
        if rnd.random() < 0.4 and not auto or rnd.random() < 0.2:
            self.default = "dflt"
            self.states["dflt"] = dict(kind="default", first=False, mf=True, duration=None, next=None,
                                       params=list(rnd.choice([(), ("tm",), ("initial_call", "state_tm"), ("state_tm", "tm", "initial_call")])))
        self.first = names[first]

    def build(self, recorder):
        ns = {"state": state, "timed_state": timed_state, "default_state": default_state, "REC": recorder}
        base = "AutonomousStateMachine" if self.auto else "StateMachine"
        ns[base] = AutonomousStateMachine if self.auto else StateMachine
        src = [f"class M({base}):", "    MODE_NAME = 'm'", "    def done(self):", "        REC(self, '<done>', {})", "        super().done()"]
        for nm, s in self.states.items():
            if s["kind"] == "timed":
                dec = f"@timed_state(duration={s['duration']!r}, next_state={s['next']!r}, first={s['first']}, must_finish={s['mf']})"
            elif s["kind"] == "default":
                dec = "@default_state"
            else:
                dec = f"@state(first={s['first']}, must_finish={s['mf']})"
            args = ", ".join(["self"] + s["params"])
            d = "{" + ", ".join(f"'{p}': {p}" for p in s["params"]) + "}"
            src += [f"    {dec}", f"    def {nm}({args}):", f"        REC(self, '{nm}', {d})"]
        exec("\n".join(src), ns)
        return ns["M"]


class RefSM:
    """reference simulator of the intended semantics (written against the property statements)"""

    def __init__(self, shape, script):
        self.sh, self.script = shape, script
        self.cur, self.engaged, self.req, self.start = None, False, False, 0.0
        self.ran = {n: False for n in shape.states}
        self.start_time, self.expires = {}, {}
        self.dur = {n: s["duration"] for n, s in shape.states.items()}
        self.current_state = ""
        self.aflag = False
        self.trace = []
        self.calls = 0
        self.depth = 0

    def fresh(self, n):
        self.cur = n; self.ran[n] = False; self.current_state = n

    def engage(self, initial=None, force=False):
        self.req = True
        if force or self.cur is None or self.cur == self.sh.default:
            self.fresh(initial or self.sh.first)

    def done(self):
        self.trace.append(("<done>",))
        self.cur, self.engaged, self.current_state = None, False, ""
        if self.sh.auto:
            self.req = False; self.aflag = False

    def execute(self):
        now = clock[0]
        sh = self.sh
        if not self.engaged:
            if self.req:
                self.start = now; self.engaged = True
            elif sh.default is None:
                return
        tm = now - self.start
        st, done_called, nss = self.cur, False, tm
        if st is not None and self.ran[st] and self.expires[st] < tm:
            nss = self.expires[st]
            if sh.states[st]["next"] is None:
                done_called = True
                self.done()
                if self.req:
                    self.start += nss; self.engaged = True; tm = now - self.start; nss = 0.0
                    self.fresh(sh.first); st = self.cur
                else:
                    st = None
            else:
                self.fresh(sh.states[st]["next"]); st = self.cur
        if not (self.req or (st is not None and sh.states[st]["mf"])):
            st = None
        if st is None and sh.default is not None:
            st = sh.default
            if self.cur != st:
                if self.cur is not None:
                    self.done()
                self.ran[st] = False; self.cur = st
        if st is not None:
            ic = not self.ran[st]
            if ic:
                self.ran[st] = True; self.start_time[st] = nss
                self.expires[st] = nss + (self.dur[st] if self.dur[st] is not None else 0xFFFFFFFF)
            vals = {"tm": tm, "state_tm": tm - self.start_time[st], "initial_call": ic}
            self.trace.append((st, {p: vals[p] for p in sh.states[st]["params"]}))
            self.act(st)
        elif not done_called:
            self.done()
        self.req = False

    def act(self, st):
        a = self.script[self.calls % len(self.script)] if st != self.sh.default else None
        self.calls += 1
        if a is None:
            return
        if a[0] == "next_state":
            self.fresh(a[1])
        elif a[0] == "done":
            self.done()
        elif a[0] == "next_state_now" and self.depth < 2:
            self.depth += 1
            self.fresh(a[1]); self.execute()
            self.depth -= 1

    def on_enable(self):
        self.aflag = True

    def on_iteration(self):
        if self.aflag:
            self.engage(); self.execute(); self.aflag = self.engaged


def run_trial(rnd, idx):
    auto = rnd.random() < 0.35
    sh = Shape(rnd, auto)
    names = [n for n in sh.states if n != sh.default]
    script = []
    for _ in range(rnd.randrange(3, 12)):
        r = rnd.random()
        script.append(None if r < 0.6 else ("next_state", rnd.choice(names)) if r < 0.8 else
                      ("done",) if r < 0.9 else ("next_state_now", rnd.choice(names)))
    ref = RefSM(sh, script)
    real_trace, st8 = [], {"calls": 0, "depth": 0, "engaged_since_exec": False, "entered": {}, "in_iter_req": False}
    hist = [{"shape": {n: {k: v for k, v in s.items()} for n, s in sh.states.items()}, "auto": auto, "script": script}]

    def rec(m, name, vals):
        if name == "<done>":
            real_trace.append(("<done>",)); return
        real_trace.append((name, dict(vals)))
        s = sh.states[name]
        # ---- statement-level monitors
        if "state_tm" in vals and vals["state_tm"] < -EPS:
            fail(f"C02/C03: state_tm = {vals['state_tm']} < 0 in state {name}", hist)
        if "tm" in vals and vals["tm"] < -EPS:
            fail(f"C03: tm = {vals['tm']} < 0 in state {name}", hist)
        if s["kind"] != "default" and not s["mf"] and not st8["in_iter_req"]:
            fail(f"C01: regular state {name} ran although engage() was not called since the previous iteration", hist)
        if s["kind"] != "default" and not auto:
            if not m.is_executing or m.current_state != name:
                fail(f"C04: regular state {name} runs with is_executing={m.is_executing}, current_state={m.current_state!r}", hist)
        for p, v in vals.items():
            if (p == "initial_call") != isinstance(v, bool):
                fail(f"C03: parameter {p} of {name} received {v!r}", hist)
        if name == sh.default:
            st8["calls"] += 1
            return
        a = script[st8["calls"] % len(script)]
        st8["calls"] += 1
        if a is None:
            return
        if a[0] == "next_state":
            m.next_state(a[1])
        elif a[0] == "done":
            m.done()
        elif a[0] == "next_state_now" and st8["depth"] < 2:
            st8["depth"] += 1
            m.next_state_now(a[1])
            st8["depth"] -= 1

    M = sh.build(rec)
    m = M()
    import logging
    m.logger = logging.getLogger("sm-replay"); m.logger.setLevel(logging.CRITICAL)
    setup_tunables(m, f"sm{idx}", "autonomous" if auto else "components")
    clock[0] = rnd.choice([0.0, 12.5])
    steps = 0
    if auto:   # the selector always calls on_enable() before the first on_iteration()
        m.on_enable(); ref.on_enable(); hist.append([clock[0], "on_enable"])
    for _ in range(rnd.randrange(4, 40)):
        clock[0] += rnd.choice([0.0, 0.02, 0.02, 0.1, 0.25, 0.5, 0.5, 1.0, 1.0001, 3.0, 7.5])
        op = None
        if auto:
            r = rnd.random()
            op = "on_enable" if r < 0.15 and not ref.aflag and ref.cur in (None, sh.default) else "on_disable" if r < 0.22 else "on_iteration"
            hist.append([round(clock[0], 4), op])
            if op == "on_enable":
                m.on_enable(); ref.on_enable()
            elif op == "on_disable":
                m.on_disable(); ref.done()
            else:
                st8["in_iter_req"] = ref.aflag
                m.on_iteration(clock[0]); ref.on_iteration()
        else:
            r = rnd.random()
            pre = None
            if r < 0.62:
                pre = ("engage",)
            elif r < 0.68:
                pre = ("engage_init", rnd.choice(names))
            elif r < 0.72:
                pre = ("engage_force",)
            elif r < 0.76:
                pre = ("done",)
            elif r < 0.79:
                pre = ("on_disable",)
            elif r < 0.86:
                t = [n for n in names if sh.states[n]["kind"] == "timed"]
                if t:
                    pre = ("set_duration", rnd.choice(t), rnd.choice([0.0, 0.2, 0.75, 2.0]))
            pres = [pre]
            if r >= 0.86 and r < 0.92:
                pres = [("engage",), ("done",)]
            elif r >= 0.92 and r < 0.96:
                pres = [("done",), ("engage",)]
            hist.append([round(clock[0], 4), pres, "execute"])
            st8["in_iter_req"] = False
            for pre in pres:
              if pre:
                if pre[0] == "engage":
                    m.engage(); ref.engage()
                elif pre[0] == "engage_init":
                    m.engage(initial_state=pre[1]); ref.engage(pre[1])
                elif pre[0] == "engage_force":
                    m.engage(force=True); ref.engage(force=True)
                elif pre[0] == "done":
                    m.done(); ref.done()
                elif pre[0] == "on_disable":
                    m.on_disable(); ref.done()
                elif pre[0] == "set_duration":
                    setattr(m, pre[1] + "_duration", pre[2]); ref.dur[pre[1]] = pre[2]
                if pre[0].startswith("engage"):
                    st8["in_iter_req"] = True
                del real_trace[:]; del ref.trace[:]
            m.execute(); ref.execute()
        steps += 1
        # ---- compare
        if len(real_trace) != len(ref.trace):
            fail(f"call trace length differs: real {real_trace[-4:]} vs reference {ref.trace[-4:]}", hist)
        for a, b in zip(real_trace, ref.trace):
            if a[0] != b[0]:
                fail(f"a different state function ran: real {a} vs reference {b}", hist)
            if len(a) > 1:
                for p in a[1]:
                    va, vb = a[1][p], b[1][p]
                    if (isinstance(va, bool) and va != vb) or (not isinstance(va, bool) and abs(va - vb) > 1e-6):
                        fail(f"state {a[0]} received {p}={va!r}, expected {vb!r} (C02/C03)", hist)
        del real_trace[:]; del ref.trace[:]
        if m.is_executing != ref.engaged or m.current_state != ref.current_state:
            fail(f"after the step is_executing={m.is_executing} current_state={m.current_state!r}, expected {ref.engaged} {ref.current_state!r} (C04)", hist)
    return steps


def main():
    rnd = random.Random(SEED)
    total = 0
    for i in range(N_TRIALS):
        total += run_trial(rnd, i)
    print("not reproduced in", total, "steps over", N_TRIALS, "random machines")
    print("STANDIN-JSON " + json.dumps({"bounded": True, "evaluations": total,
                                        "bound": f"{N_TRIALS} random machine shapes (2-6 states), histories of <= 40 steps, action scripts respecting CB-K1/CB-A1"}))


main()

"""Native replay for C20: run the real crc7 against a bit-serial reference.
Uses the counter-model (table index b, or loop-body csum/d) when present, then a bounded search.
exit 1 = violation reproduced on the real code, 0 = not reproduced."""
import json, sys, random, itertools
from robotpy_ext.misc.crc7 import crc7

def ref(data):
    crc = 0
    for b in data:
        crc ^= b
        for _ in range(8):
            if crc & 1:
                crc ^= 0x91
            crc >>= 1
    return crc

rec = json.load(open(sys.argv[1])) if len(sys.argv) > 1 else {}
cands = []
ex = rec.get("extract") or {}
if "b" in ex:
    cands.append(bytes([ex["b"]]))
if "d" in ex and "csum" in ex:
    # find a <=2 byte prefix reaching csum, then append d
    for pre in itertools.chain([()], ((a,) for a in range(256)), itertools.product(range(256), repeat=2)):
        if ref(pre) == ex["csum"]:
            cands.append(bytes(pre) + bytes([ex["d"]])); break
cands += [bytes([b]) for b in range(256)]
rnd = random.Random(0)
cands += [bytes(p) for p in itertools.product(range(0, 256, 5), repeat=2)]
cands += [bytes(rnd.randrange(256) for _ in range(rnd.randrange(1, 40))) for _ in range(20000)]
for m in cands:
    try:
        got = crc7(m)
    except Exception as e:
        got = repr(e)
    if got != ref(m):
        print(f"REPRODUCED: crc7({m!r}) = {got}, bit-serial CRC-7 = {ref(m)}")
        sys.exit(1)
    # call twice with a mutated mutable buffer (object identity must not matter)
ba = bytearray(b"\x01\x02\x03")
r1 = crc7(ba); ba[0] ^= 0x10; r2 = crc7(ba)
if r2 != ref(ba):
    print(f"REPRODUCED: crc7 on a mutated bytearray returned {r2}, expected {ref(ba)}")
    sys.exit(1)
print("not reproduced on", len(cands), "messages")
print("STANDIN-JSON " + json.dumps({"bounded": True, "evaluations": len(cands) + 2, "bound": "messages shorter than 40 bytes"}))
sys.exit(0)

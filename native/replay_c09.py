"""Native bounded stand-in for C09 / C11 on the REAL magic_tunable with the real ntcore: keys, topic types, per-instance
values, writeDefault vs existing values, interleaved python-side and NT-side writes; @feedback keys and types.
exit 1 = violation reproduced."""
import json, os, random, sys, typing
from typing import Sequence
import ntcore
from magicbot.magic_tunable import tunable, setup_tunables, feedback, collect_feedbacks
rnd = random.Random(int(os.environ.get("VERIF_SEED", "0")))
nt = ntcore.NetworkTableInstance.getDefault()
def fail(m): print("REPRODUCED:", m); sys.exit(1)
_pubs = []
def nt_write(key, tstr, v):
    """a NetworkTables client writing the topic with its proper type"""
    get = {"boolean": nt.getBooleanTopic, "int": nt.getIntegerTopic, "double": nt.getDoubleTopic, "string": nt.getStringTopic, "int[]": nt.getIntegerArrayTopic,
           "double[]": nt.getDoubleArrayTopic, "string[]": nt.getStringArrayTopic, "boolean[]": nt.getBooleanArrayTopic}
    p = nt.getRawTopic(key).publish("raw") if tstr == "raw" else get[tstr](key).publish()
    p.set(v); _pubs.append(p)
n = 0
DEFAULTS = {"b": (True, "boolean", False), "i": (3, "int", 11), "f": (1.5, "double", 2.25), "s": ("abc", "string", "xyz"), "r": (b"\x01\x02", "raw", b"\x09"),
            "ai": ([1, 2], "int[]", [5]), "af": ([1.0], "double[]", [2.5, 3.5]), "as_": (["a"], "string[]", ["q", "r"]), "ab": ([True], "boolean[]", [False, True])}
for trial in range(40 * int(os.environ.get("VERIF_SCALE", "1"))):
    sub = {k: rnd.choice([None, None, "pid", "state"]) for k in DEFAULTS}
    wd = {k: rnd.random() < 0.6 for k in DEFAULTS}
    ns = {k: tunable(DEFAULTS[k][0], writeDefault=wd[k], subtable=sub[k]) for k in DEFAULTS}
    ns["es"] = tunable([], subtable=None); ns["__annotations__"] = {"es": tunable[Sequence[str]]}
    C = type(f"C{trial}", (), ns)
    for prefix, pname in (("components", "components"), ("autonomous", "autonomous"), (None, None)):
        names = [f"n{trial}a_{pname}", f"n{trial}b_{pname}"]
        def key(name, a): return "/" + "/".join([p for p in ([prefix] if prefix else []) + [name] + ([sub[a]] if sub.get(a) else []) + [a]])
        # pre-existing topic values for the first instance
        pre = {}
        for a in DEFAULTS:
            if rnd.random() < 0.5:
                pre[a] = DEFAULTS[a][2]
                nt_write(key(names[0], a), DEFAULTS[a][1], pre[a])
        objs = [C(), C()]
        for o, nm in zip(objs, names):
            setup_tunables(o, nm, prefix)
        for a, (dflt, tstr, other) in DEFAULTS.items():
            n += 1
            t = nt.getTopic(key(names[0], a))
            if not t.exists(): fail(f"tunable {a} of {names[0]} is not at {key(names[0], a)}")
            if t.getTypeString() != tstr: fail(f"topic {key(names[0], a)} has type {t.getTypeString()}, expected {tstr}")
            want0 = dflt if (wd[a] or a not in pre) else pre[a]
            got0 = getattr(objs[0], a)
            if list(got0) != list(want0) if isinstance(want0, list) else got0 != want0: fail(f"{names[0]}.{a} = {got0!r} after setup (writeDefault={wd[a]}, pre-existing={pre.get(a)!r}), expected {want0!r}")
            # python-side write on instance 1 must not leak into instance 0
            setattr(objs[1], a, other)
            g0, g1 = getattr(objs[0], a), getattr(objs[1], a)
            if (list(g1) if isinstance(other, list) else g1) != other: fail(f"{names[1]}.{a} = {g1!r} after assigning {other!r}")
            if (list(g0) if isinstance(want0, list) else g0) != want0: fail(f"{names[0]}.{a} changed to {g0!r} when {names[1]}.{a} was assigned (shared value)")
            # NT-side write, then python write of the earlier value, then read (latest from either side wins)
            e = nt.getEntry(key(names[1], a)); nt_write(key(names[1], a), tstr, dflt)
            g1 = getattr(objs[1], a)
            if (list(g1) if isinstance(dflt, list) else g1) != dflt: fail(f"{names[1]}.{a} = {g1!r} after an NT-side write of {dflt!r}")
            setattr(objs[1], a, other)
            g1 = getattr(objs[1], a); v = e.getValue().value()
            if (list(g1) if isinstance(other, list) else g1) != other or (list(v) if isinstance(other, list) else v) != other:
                fail(f"after python set {other!r}, NT set {dflt!r}, python set {other!r}: attribute {g1!r}, topic {v!r}")
        if nt.getTopic(key(names[0], "es")).getTypeString() != "string[]": fail("type-hinted empty sequence tunable is not a string[] topic")
# type hint wins over the default's natural type
class Hinted:
    gain: float = tunable(1)
    ratio = tunable[float](2)
    speeds: Sequence[float] = tunable([0, 1])
h = Hinted(); setup_tunables(h, "hinted")
for a, tstr in (("gain", "double"), ("ratio", "double"), ("speeds", "double[]")):
    n += 1
    ts = nt.getTopic(f"/components/hinted/{a}").getTypeString()
    if ts != tstr: fail(f"type-hinted tunable {a} is a {ts} topic, the hint says {tstr}")
h.gain = 0.25
if h.gain != 0.25: fail(f"hinted.gain = {h.gain!r} after assigning 0.25")
# a subclass redefining an inherited tunable: its default and writeDefault flag count
class BaseT:
    kp = tunable(0.5)
    keep = tunable(1.0)
class DerivedT(BaseT):
    kp = tunable(0.9)
    keep = tunable(2.0, writeDefault=False)
nt_write("/components/derived/keep", "double", 42.0)
d = DerivedT(); setup_tunables(d, "derived"); n += 2
if d.kp != 0.9: fail(f"subclass-redefined tunable kp = {d.kp!r}, the subclass default is 0.9")
if d.keep != 42.0: fail(f"subclass tunable keep (writeDefault=False) = {d.keep!r}, the pre-existing topic value 42.0 must be preserved")
# feedbacks
class Rot: pass
class F:
    @feedback
    def get_angle(self) -> float: return 1.5
    @feedback
    def speed(self) -> int: return 3
    @feedback(key="renamed")
    def get_other(self) -> str: return "x"
    @feedback
    def get_flag(self): return True
    @feedback
    def get_names(self) -> Sequence[str]: return []
    @feedback
    def get_count(self) -> "int": return 4
    @feedback
    def get_blob(self) -> bytes: return b"\x07"
    @feedback
    def target_rpm(self) -> float: return 9.5
    @feedback
    def budget_left(self) -> int: return 8
    def get_plain(self): return 0
for prefix, owner in (("components", "fbc"), (None, "robot")):
    fbs = collect_feedbacks(F(), owner, prefix)
    for m, s in fbs: s(m())
    base = "/" + "/".join(([prefix] if prefix else []) + [owner])
    want = {"angle": ("double", 1.5), "speed": ("int", 3), "renamed": ("string", "x"), "flag": ("boolean", True), "names": ("string[]", []), "count": ("int", 4), "blob": ("raw", b"\x07"), "target_rpm": ("double", 9.5), "budget_left": ("int", 8)}
    if len(fbs) != len(want): fail(f"{len(fbs)} feedbacks collected, expected {len(want)}")
    for k, (tstr, val) in want.items():
        n += 1
        t = nt.getTopic(f"{base}/{k}")
        if not t.exists(): fail(f"feedback {k} not published under {base}/{k}")
        if t.getTypeString() != tstr: fail(f"feedback topic {base}/{k} has type {t.getTypeString()}, expected {tstr}")
        v = nt.getEntry(f"{base}/{k}").getValue().value()
        if (list(v) if isinstance(val, list) else v) != val: fail(f"feedback {base}/{k} holds {v!r}, expected {val!r}")
    if nt.getTopic(f"{base}/plain").exists() or nt.getTopic(f"{base}/get_plain").exists(): fail("an undecorated method was published")
# a type hint declared on a BASE class applies to a tunable defined on the subclass (typing.get_type_hints follows the MRO)
class _HintBase:
    speed: float
class _HintSub(_HintBase):
    speed = tunable(0)
_hs = _HintSub(); setup_tunables(_hs, "hint_inherit")
if nt.getTopic("/components/hint_inherit/speed").getTypeString() != "double":
    fail(f"a tunable whose type hint (float) is declared on the base class got the topic type {nt.getTopic('/components/hint_inherit/speed').getTypeString()!r} from its int default")
n += 1
print("not reproduced in", n, "cases")
print("STANDIN-JSON " + json.dumps({"bounded": True, "evaluations": n, "bound": "40 random classes x 3 owner kinds x 9 value types x 2 instances; 7 feedback methods x 2 owners"}))

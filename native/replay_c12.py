"""Native bounded stand-in for C12 (and the parameter-order clause of C03): small-scope StateMachine class definitions
executed by the REAL magicbot.state_machine: every attribute name of StateMachine as a state name, illegal/legal
signatures (all 16 ordered parameter subsets x 3 decorators), aliasing, states outside a StateMachine, direct calls,
and first/default multiplicity + state_names order over single / linear / diamond inheritance with overriding.
exit 1 = violation reproduced."""
import itertools, json, os, random, sys
import magicbot.state_machine as smm
from magicbot import StateMachine, state, timed_state, default_state
from magicbot.state_machine import (IllegalCallError, NoFirstStateError, MultipleFirstStatesError, MultipleDefaultStatesError, InvalidStateName)
from magicbot.magic_tunable import setup_tunables
rnd = random.Random(int(os.environ.get("VERIF_SEED", "0")))
n = 0
def fail(m): print("REPRODUCED:", m); sys.exit(1)
def raises(exc, fn):
    try: fn()
    except exc: return True
    except RuntimeError as e:   # Python < 3.12 wraps __set_name__ errors
        return isinstance(e.__cause__, exc)
    except Exception: return False
    return False
def mkfn(name, params, rec=None):
    ns = {"REC": rec}
    src = f"def {name}({', '.join(params)}):\n    " + ("REC(dict(" + ", ".join(f"{p}={p}" for p in params if p not in ('self',) and not p.startswith('*') and p != '/') + "))" if rec else "pass")
    exec(src, ns); return ns[name]
# 1. forbidden names
for nm in dir(StateMachine):
    n += 1
    if not nm.isidentifier(): continue
    f = mkfn(nm, ["self"])
    if not raises(InvalidStateName, lambda: state(f)): fail(f"a state named {nm!r} (an attribute of StateMachine) was accepted")
# 2. signatures
opt = ["tm", "state_tm", "initial_call"]
decs = [lambda f: state(f), lambda f: timed_state(duration=1.0)(f), lambda f: default_state(f), lambda f: state(first=True)(f)]
for k in range(4):
    for perm in itertools.permutations(opt, k):
        for di, dec in enumerate(decs):
            n += 1
            got = []
            f = mkfn("st_x", ["self"] + list(perm), got.append)
            try: w = dec(f)
            except Exception as e: fail(f"legal signature (self, {perm}) rejected by decorator #{di}: {e!r}")
            w.run(object(), 1.5, 0.25, True)
            want = {"tm": 1.5, "state_tm": 0.25, "initial_call": True}
            if got != [{p: want[p] for p in perm}]: fail(f"parameters {perm} received {got} (each parameter must receive its own value)")
for bad in (["tm"], ["notself", "tm"], ["self", "*args"], ["self", "**kw"], ["self", "*", "tm"], ["self", "foo"], ["self", "tm", "bar"], ["self", "*args", "**kw"]):
    n += 1
    if not raises(ValueError, lambda: state(mkfn("st_y", bad))): fail(f"illegal signature {bad} accepted")
# 3. alias / outside a StateMachine / direct call
def alias():
    class A(StateMachine):
        @state(first=True)
        def a(self): pass
        b = a
if not raises(InvalidStateName, alias): fail("a state bound under a second attribute name was accepted")
def outside():
    class B:
        @state(first=True)
        def a(self): pass
if not raises(TypeError, outside): fail("a state defined outside a StateMachine was accepted")
class Ok(StateMachine):
    @state(first=True)
    def a(self): pass
o = Ok(); setup_tunables(o, "c12ok")
if not raises(IllegalCallError, lambda: o.a()): fail("calling a state directly did not raise IllegalCallError")
n += 3
# 4. multiplicity and order over inheritance
def build(layout):
    """layout: list of (classname, bases, [(statename, first, default)]) ; returns the classes"""
    classes = {}
    for cname, bases, sts in layout:
        ns = {}
        for sn, first, dflt in sts:
            f = mkfn(sn, ["self"]); f.__doc__ = f"doc of {cname}.{sn}"
            ns[sn] = default_state(f) if dflt else state(first=first)(f)
        classes[cname] = type(cname, tuple(classes[b] for b in bases) or (StateMachine,), ns)
    return classes
names = ["sa", "sb", "sc", "sd"]
for trial in range(400 * int(os.environ.get("VERIF_SCALE", "1"))):
    shape = rnd.choice(["single", "linear", "diamond", "mixin"])
    def sts(k): return [(nm, rnd.random() < 0.35, rnd.random() < 0.2) for nm in rnd.sample(names, k)]
    if shape == "single": layout = [("K0", [], sts(rnd.randrange(1, 4)))]
    elif shape == "linear": layout = [("K0", [], sts(rnd.randrange(0, 3))), ("K1", ["K0"], sts(rnd.randrange(0, 3))), ("K2", ["K1"], sts(rnd.randrange(0, 3)))]
    elif shape == "diamond": layout = [("K0", [], sts(rnd.randrange(0, 3))), ("K1", ["K0"], sts(rnd.randrange(0, 3))), ("K2", ["K0"], sts(rnd.randrange(0, 3))),
                                       ("K3", rnd.choice([["K1", "K2"], ["K2", "K1"]]), sts(rnd.randrange(0, 2)))]
    else: layout = [("K0", [], sts(rnd.randrange(0, 3))), ("K1", [], sts(rnd.randrange(0, 3))), ("K2", ["K1", "K0"], sts(rnd.randrange(0, 2)))]
    layout = [(c, b, [(s, f and not d, d) for s, f, d in st]) for c, b, st in layout]
    n += 1
    try: classes = build(layout)
    except Exception as e: fail(f"class definition failed: {e!r} for {layout}")
    leaf = classes[layout[-1][0]]
    # expected: most derived definition wins (MRO), order = first appearance from the base end
    eff, order = {}, []
    spec = {c: st for c, _, st in layout}
    for klass in reversed(leaf.__mro__):
        for sn, first, dflt in spec.get(klass.__name__, []):
            if sn not in eff: order.append(sn)
            eff[sn] = (first, dflt, klass.__name__)
    nfirst = sum(1 for v in eff.values() if v[0]); ndef = sum(1 for v in eff.values() if v[1])
    try:
        inst = leaf(); err = None
    except (NoFirstStateError, MultipleFirstStatesError, MultipleDefaultStatesError) as e:
        err = type(e)
    except Exception as e:
        fail(f"unexpected {e!r} instantiating {layout}")
    want = MultipleFirstStatesError if nfirst > 1 else (MultipleDefaultStatesError if ndef > 1 else (NoFirstStateError if nfirst == 0 else None))
    if want is None and err is not None: fail(f"valid machine rejected with {err.__name__}: {layout}")
    if want is not None and err is None: fail(f"invalid machine (first={nfirst}, default={ndef}) instantiated: {layout}")
    if want is not None and err is not None and nfirst <= 1 and ndef <= 1 and err is not want: fail(f"wrong error {err.__name__}, expected {want.__name__}: {layout}")
    if err is None:
        setup_tunables(inst, f"c12_{trial}")
        if list(inst.state_names) != order: fail(f"state_names {list(inst.state_names)} != {order} (base-class states first, definition order): {layout}")
        if list(inst.state_descriptions) != [f"doc of {eff[s][2]}.{s}" for s in order]: fail(f"state_descriptions not aligned: {list(inst.state_descriptions)}: {layout}")
# 5. a base machine instantiated first, then a subclass that adds states: each class lists exactly its own states
class BaseM(StateMachine):
    @state(first=True)
    def b_first(self): "doc b_first"
    @state
    def b_second(self): "doc b_second"
class DerivedM(BaseM):
    @state
    def d_extra(self): "doc d_extra"
bm = BaseM(); setup_tunables(bm, "c12_base")
dm = DerivedM(); setup_tunables(dm, "c12_derived")
bm2 = BaseM(); setup_tunables(bm2, "c12_base2")
n += 3
if list(dm.state_names) != ["b_first", "b_second", "d_extra"] or list(dm.state_descriptions) != ["doc b_first", "doc b_second", "doc d_extra"]:
    fail(f"subclass instantiated after its base lists {list(dm.state_names)} / {list(dm.state_descriptions)}")
if list(bm2.state_names) != ["b_first", "b_second"]: fail(f"base class instantiated after its subclass lists {list(bm2.state_names)}")
# 6. illegal parameter kinds carrying legal names
for bad in (["self", "*tm"], ["self", "**state_tm"], ["self", "*", "initial_call"], ["*self"]):
    n += 1
    if not raises(ValueError, lambda: state(mkfn("st_z", bad))): fail(f"illegal signature {bad} accepted")
print("not reproduced in", n, "definitions")
print("STANDIN-JSON " + json.dumps({"bounded": True, "evaluations": n, "bound": "every dir(StateMachine) name; 16 ordered parameter subsets x 4 decorators; 8 illegal signatures; 400 random single/linear/diamond/mixin hierarchies of <= 4 classes x <= 3 states"}))

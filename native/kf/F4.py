"""Known finding F4 (C13): a state function of an AutonomousStateMachine that calls done() and then next_state(x)
leaves x pending; the next on_enable() + on_iteration() starts in x instead of the first state.
exit 1 = still reproduces on the real code."""
import sys, logging
import magicbot.state_machine as smm
from magicbot import AutonomousStateMachine, state
from magicbot.magic_tunable import setup_tunables
clock = [0.0]
smm.getTime = lambda: clock[0]
log = []
class A(AutonomousStateMachine):
    MODE_NAME = "kf"
    @state(first=True)
    def first(self):
        log.append("first"); self.done(); self.next_state("x")
    @state
    def x(self): log.append("x")
a = A(); a.logger = logging.getLogger("kf"); a.logger.setLevel(logging.CRITICAL); setup_tunables(a, "kf_f4", "autonomous")
a.on_enable(); a.on_iteration(0.0); a.on_iteration(0.02); a.on_disable() if False else None
a.on_enable(); clock[0] = 5.0; a.on_iteration(0.0)
print("trace:", log)
sys.exit(1 if log == ["first", "x"] else 0)

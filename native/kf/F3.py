"""Known finding F3 (C04; symptom for C02/C03 when followed by engage()).
From the default state (machine not engaged) next_state(<must_finish state>) without engage() makes a regular
state run with is_executing False; a following engage() then resets the clock origin under it (negative state_tm).
exit 1 = still reproduces on the real code."""
import sys, logging
import magicbot.state_machine as smm
from magicbot import StateMachine, state, timed_state, default_state
from magicbot.magic_tunable import setup_tunables
clock = [10.0]
smm.getTime = lambda: clock[0]
log = []
class M(StateMachine):
    @state(first=True)
    def a(self): log.append(("a",))
    @timed_state(duration=5.0, must_finish=True)
    def x(self, state_tm): log.append(("x", self.is_executing, state_tm))
    @default_state
    def d(self): log.append(("d",))
m = M(); m.logger = logging.getLogger("kf"); setup_tunables(m, "kf_f3")
m.execute()                 # default state runs, machine not engaged
m.next_state("x")           # usage outside the documented one: no engage()
clock[0] += 1.0; m.execute()
sym1 = log[-1][0] == "x" and log[-1][1] is False      # C04: regular state runs while is_executing is False
clock[0] += 1.0; m.engage(); m.execute()
sym2 = log[-1][0] == "x" and log[-1][2] < 0           # C02/C03: negative state_tm
print("x ran with is_executing False:", sym1, "; negative state_tm after engage():", sym2, log[-2:])
want = sys.argv[1] if len(sys.argv) > 1 else "C04"
sys.exit(1 if (sym1 if want == "C04" else sym2) else 0)

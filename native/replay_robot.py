"""Native bounded stand-in / replay device for C05, C06, C07, C10, C11 on the REAL MagicRobot.

Random robot layouts (components with/without on_enable/on_disable, inherited will_reset_to markers, @feedback
methods on components and robot, robotPeriodic) with a random set of raising callbacks, FMS attached or not.
The real _create_components / _on_mode_enable_components / _enabled_periodic / _do_periodics /
_on_mode_disable_components are run and the recorded callback trace, the will_reset_to attributes and the published
feedback values are compared with what the properties prescribe (the mode loops themselves are covered deductively).  exit 1 = violation reproduced (layout + trace printed)."""
import json, os, random, sys, threading, time, types
from unittest.mock import Mock
import hal, hal.simulation as hs
import ntcore, wpilib
from wpilib.simulation import DriverStationSim as DS
import magicbot
from magicbot import will_reset_to, feedback

SEED = int(os.environ.get("VERIF_SEED", "0")); N = int(os.environ.get("ROBOT_TRIALS", "150")) * int(os.environ.get("VERIF_SCALE", "1"))
rnd = random.Random(SEED)
TRACE = []
nt = ntcore.NetworkTableInstance.getDefault()


def fail(msg, layout):
    print("REPRODUCED:", msg); print("layout:", json.dumps(layout)[:1500]); print("trace tail:", TRACE[-25:]); sys.exit(1)


def set_ds(enabled=False, auto=False, test=False, fms=None):
    DS.setEnabled(enabled); DS.setAutonomous(auto); DS.setTest(test)
    if fms is not None: DS.setFmsAttached(fms)
    DS.setDsAttached(True); DS.notifyNewData(); wpilib.DriverStation.refreshData()


class Boom(Exception):
    pass


def make_robot(trial, layout):
    ncomp = layout["ncomp"]
    comp_classes = {}
    for i in range(ncomp):
        cn = f"c{i}"
        spec = layout["comps"][cn]

        def mk(cn=cn, spec=spec):
            nm = lambda self: self.logger.name       # the attribute name the robot gave this instance (MagicRobot sets component.logger)
            def rec(kind, self):
                TRACE.append((kind, nm(self)))
                if (kind, nm(self)) in RAISE: raise Boom(f"{kind} {nm(self)}")
            ns = {"execute": lambda self: (TRACE.append(("seen", nm(self), {k: getattr(self, k) for k in spec["resets"]})), rec("execute", self))[1]}
            if spec["on_enable"]: ns["on_enable"] = lambda self: rec("on_enable", self)
            if spec["on_disable"]: ns["on_disable"] = lambda self: rec("on_disable", self)
            base_ns = {k: will_reset_to(v) for k, v in spec["resets"].items() if k.startswith("inh")}
            # a marker the subclass RE-DECLARES with another default (the subclass's wins), and a base marker the subclass replaces by a
            # plain attribute (no longer a marker: must never be touched by the reset)
            if spec.get("override"): base_ns["own_b"] = will_reset_to("base-default-must-not-win")
            if spec.get("shadow"): base_ns["other"] = will_reset_to("base-marker-shadowed")
            for k, v in spec["resets"].items():
                if not k.startswith("inh"): ns[k] = will_reset_to(v)
            ns["other"] = 7
            def mk_getter(fb):
                def getter(self):
                    TRACE.append(("fb", nm(self), fb))
                    if ("fb", nm(self) + "." + fb) in RAISE: raise Boom(fb)
                    COUNTER[0] += 1
                    if fb == "hist":      # the SAME list object, mutated in place between iterations (a publish-on-change cache would miss it)
                        lst = self.__dict__.setdefault("_hist_list", [])
                        lst.append(COUNTER[0]); del lst[:-3]
                        VALUES[(nm(self), fb)] = list(lst); return lst
                    VALUES[(nm(self), fb)] = COUNTER[0]; return COUNTER[0]
                getter.__name__ = fb; getter.__annotations__ = {"return": (list[int] if fb == "hist" else int)}
                return feedback(getter)
            for fb in spec["feedbacks"]:
                (base_ns if (fb == "speed" and spec.get("inherit_fb")) else ns)[fb] = mk_getter(fb)       # some @feedback methods are inherited from the base class
            Base = type(f"Base_{trial}_{cn}", (), base_ns)
            return type(f"Comp_{trial}_{cn}", (Base,), ns)
        comp_classes[cn] = mk()
    if layout.get("same_class") and ncomp >= 2:       # two components that are instances of one class
        comp_classes["c1"] = comp_classes["c0"]
        layout["comps"]["c1"] = layout["comps"]["c0"]
    RAISE = set(); COUNTER = [1000]; VALUES = {}
    rns = {"__annotations__": dict(comp_classes), "use_teleop_in_autonomous": layout["use_teleop"], "control_loop_wait_time": 0.02}

    def mode_cb(name):
        def f(self):
            TRACE.append((name, "robot"))
            if name == "teleopPeriodic":
                for cn, spec in layout["comps"].items():
                    for k in spec["resets"]: setattr(getattr(self, cn), k, "assigned")
            if (name, "robot") in RAISE: raise Boom(name)
        return f
    for nm in ("teleopPeriodic", "disabledPeriodic", "testPeriodic", "autonomousInit", "teleopInit", "disabledInit", "testInit", "robotPeriodic"):
        rns[nm] = mode_cb(nm)
    rns["createObjects"] = lambda self: None
    Robot = type(f"Robot_{trial}", (magicbot.MagicRobot,), rns)
    return Robot, RAISE, VALUES


def check_iteration(layout, seg, fms, raised, enabled_loop, VALUES, robot):
    """one enabled iteration (or one _do_periodics) given as a trace segment"""
    kinds = [(e[0], e[1]) for e in seg if e[0] != "seen"]
    comps = [f"c{i}" for i in range(layout["ncomp"])]
    want = []
    if enabled_loop: want += [("execute", c) for c in comps]
    want += [("fb", c) for c in comps for _ in layout["comps"][c]["feedbacks"]]
    want += [("robotPeriodic", "robot")]
    got = [k for k in kinds if k[0] in ("execute", "fb", "robotPeriodic")]
    if got != want: fail(f"C05/C07: callbacks of the iteration {got}, expected {want} (raising: {sorted(raised)}, fms={fms})", layout)


total = 0
hs.pauseTiming()
for trial in range(N):
    ncomp = rnd.randrange(1, 4)
    layout = {"ncomp": ncomp, "use_teleop": rnd.random() < 0.5, "comps": {}}
    for i in range(ncomp):
        layout["comps"][f"c{i}"] = {"on_enable": rnd.random() < 0.7, "on_disable": rnd.random() < 0.7,
                                    "resets": {k: rnd.choice([0, False, "d"]) for k in rnd.sample(["inh_a", "own_b", "own_c"], rnd.randrange(0, 3))},
                                    "feedbacks": sorted(rnd.sample(["get_x", "hist", "speed"], rnd.randrange(0, 4))),
                                    "override": rnd.random() < 0.3, "shadow": rnd.random() < 0.3, "inherit_fb": rnd.random() < 0.5}
    layout["same_class"] = rnd.random() < 0.25
    Robot, RAISE, VALUES = make_robot(trial, layout)
    robot = Robot(); robot.createObjects(); robot._automodes = Mock(); robot._automodes.modes = {}
    robot.watchdog = Mock(); robot._MagicRobot__periodics = [(robot.robotPeriodic, "robotPeriodic()")]
    robot._create_components()
    comps = [f"c{i}" for i in range(ncomp)]
    if [n for n, _ in robot._components] != comps: fail(f"component order {[n for n, _ in robot._components]}", layout)
    # reset defaults present at creation
    for cn, spec in layout["comps"].items():
        for k, v in spec["resets"].items():
            if getattr(getattr(robot, cn), k) != v or isinstance(getattr(getattr(robot, cn), k), will_reset_to): fail(f"C10: {cn}.{k} does not start at its default {v!r}: {getattr(getattr(robot, cn), k)!r}", layout)
    fms = rnd.random() < 0.6
    set_ds(fms=fms)
    all_sites = [("execute", c) for c in comps] + [("on_enable", c) for c in comps if layout["comps"][c]["on_enable"]] + [("on_disable", c) for c in comps if layout["comps"][c]["on_disable"]] + \
                [("fb", c + "." + f) for c in comps for f in layout["comps"][c]["feedbacks"]] + [("robotPeriodic", "robot"), ("teleopPeriodic", "robot")]
    RAISE.clear(); RAISE.update(s for s in all_sites if rnd.random() < 0.2)
    total += 1
    def run(fn, sites_reached):
        """run fn; with FMS nothing may escape; without FMS an exception must escape iff a raising site is reached"""
        del TRACE[:]
        try: fn(); escaped = None
        except Boom as e: escaped = e
        except Exception as e:
            fail(f"C07/C11: {type(e).__name__}: {e} escaped from the framework (not the user's exception; raising: {sorted(RAISE)}, fms={fms})", layout)
        will_raise = [s for s in sites_reached if s in RAISE]
        if fms and escaped is not None: fail(f"C07: {escaped!r} escaped with the FMS attached", layout)
        if not fms and will_raise and escaped is None: fail(f"C07: raising callbacks {will_raise} were swallowed without the FMS", layout)
        if not fms and not will_raise and escaped is not None: fail(f"unexpected {escaped!r}", layout)
        return escaped
    en_sites = [("on_enable", c) for c in comps if layout["comps"][c]["on_enable"]]
    if run(robot._on_mode_enable_components, en_sites) is None:
        if [k for k in TRACE] != en_sites: fail(f"C06: on_enable sequence {TRACE}, expected {en_sites}", layout)
    # one teleop-style iteration: teleopPeriodic (guarded by the loop in the real code) then _enabled_periodic
    pre_vals = {}
    def iteration():
        try: robot.teleopPeriodic()
        except Boom:
            if not fms: raise
        robot._enabled_periodic()
    it_sites = [("teleopPeriodic", "robot")] + [("execute", c) for c in comps] + [("fb", c + "." + f) for c in comps for f in layout["comps"][c]["feedbacks"]] + [("robotPeriodic", "robot")]
    esc = run(iteration, it_sites)
    if esc is None:
        seg = list(TRACE)
        check_iteration(layout, [e for e in seg if e[0] != "teleopPeriodic"], fms, RAISE, True, VALUES, robot)
        tele_ok = ("teleopPeriodic", "robot") not in RAISE
        for e in seg:
            if e[0] == "seen":
                for k, v in e[2].items():
                    if v != "assigned": fail(f"C10: {e[1]}.execute() saw {k}={v!r}, teleopPeriodic had assigned it in this iteration", layout)
        for cn, spec in layout["comps"].items():
            for k, v in spec["resets"].items():
                if getattr(getattr(robot, cn), k) != v: fail(f"C10: {cn}.{k} = {getattr(getattr(robot, cn), k)!r} after the iteration, default {v!r} (raising: {sorted(RAISE)})", layout)
            if getattr(robot, cn).other != 7: fail(f"C10: the reset touched {cn}.other", layout)
            for fb in spec["feedbacks"]:
                key = "x" if fb == "get_x" else fb
                ent = nt.getEntry(f"/components/{cn}/{key}")
                if ("fb", cn + "." + fb) not in RAISE:
                    got_v = ent.getValue().value()
                    if (list(got_v) if fb == "hist" else got_v) != VALUES[(cn, fb)]: fail(f"C11: /components/{cn}/{key} holds {ent.getValue().value()!r}, the getter returned {VALUES[(cn, fb)]}", layout)
    # a periodic-only iteration (disabled / test): no execute
    dp_sites = [("fb", c + "." + f) for c in comps for f in layout["comps"][c]["feedbacks"]] + [("robotPeriodic", "robot")]
    if run(robot._do_periodics, dp_sites) is None:
        check_iteration(layout, list(TRACE), fms, RAISE, False, VALUES, robot)
        if any(e[0] == "execute" for e in TRACE): fail("C05: execute() ran from _do_periodics", layout)
        for cn, spec in layout["comps"].items():        # second publication of every feedback (a publish-on-change cache must not go stale)
            for fb in spec["feedbacks"]:
                if ("fb", cn + "." + fb) not in RAISE:
                    key = "x" if fb == "get_x" else fb
                    got_v = nt.getEntry(f"/components/{cn}/{key}").getValue().value()
                    if (list(got_v) if fb == "hist" else got_v) != VALUES[(cn, fb)]:
                        fail(f"C11: after the second iteration /components/{cn}/{key} holds {got_v!r}, the getter returned {VALUES[(cn, fb)]!r}", layout)
    # ---- one autonomous-style iteration: the REAL autonomous() decides which per-iteration functions the selector gets; the selector's
    # loop body (each function under its own guard: verified contract of AutonomousModeSelector.run) is emulated on what it was given
    robot._MagicRobot__nt_put_mode = lambda v: None; robot._MagicRobot__nt_put_is_ds_attached = lambda v: None; robot._MagicRobot__is_ds_attached = lambda: True
    saved = set(RAISE); RAISE.clear(); RAISE.update(s_ for s_ in saved if s_[0] in ("teleopPeriodic", "execute", "fb", "robotPeriodic"))
    robot._automodes.run.reset_mock()
    try:
        robot.autonomous()
        call = robot._automodes.run.call_args
        fns = call[0][1] if len(call[0]) > 1 else call[1].get("iter_fn")
        fns = (fns,) if callable(fns) else tuple(fns)
        def auto_iteration():
            for fn in fns:
                try: fn()
                except Boom:
                    if not fms: raise
        want_sites = ([("teleopPeriodic", "robot")] if layout["use_teleop"] else []) + [("execute", c) for c in comps] + \
                     [("fb", c + "." + f) for c in comps for f in layout["comps"][c]["feedbacks"]] + [("robotPeriodic", "robot")]
        if run(auto_iteration, want_sites) is None:
            got = [(e[0], e[1]) for e in TRACE if e[0] in ("teleopPeriodic", "execute", "robotPeriodic")]
            want = ([("teleopPeriodic", "robot")] if layout["use_teleop"] else []) + [("execute", c) for c in comps] + [("robotPeriodic", "robot")]
            if got != want: fail(f"C05/C07: autonomous iteration ran {got}, expected {want} (raising: {sorted(RAISE)}, fms={fms})", layout)
    except Boom:
        pass      # an enable hook raised without the FMS (covered above)
    RAISE.clear(); RAISE.update(saved)
    dis_sites = [("on_disable", c) for c in comps if layout["comps"][c]["on_disable"]]
    if run(robot._on_mode_disable_components, dis_sites) is None:
        if [k for k in TRACE] != dis_sites: fail(f"C06: on_disable sequence {TRACE}, expected {dis_sites}", layout)
set_ds(fms=False)
print("not reproduced in", total, "robot layouts")
print("STANDIN-JSON " + json.dumps({"bounded": True, "evaluations": total, "bound": f"{N} random layouts (<= 3 components, <= 3 feedbacks incl. a list mutated in place and <= 2 reset markers each, inherited markers), random raising sets, FMS on/off; one enable / enabled iteration / periodics-only iteration / disable each"}))

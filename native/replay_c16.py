"""Native replay / bounded search for C16 on the REAL NotifierDelay, with the HAL replaced by a fake that
implements exactly the assumed contract (clock only advances in waitForNotifierAlarm, to max(now, alarm)).
Seeds the search with the counter-model's period and clock values when a replay file is given.
exit 1 = a property clause is violated by the real code, 0 = not reproduced."""
import json, sys, types, itertools, random
import robotpy_ext.misc.precise_delay as pd
import wpilib

class FakeHal:
    def __init__(self, now):
        self.now = now; self.alarm = {}; self.live = set(); self.n = 0; self.log = []
    def initializeNotifier(self):
        self.n += 1; self.live.add(self.n); return (self.n, 0)
    def updateNotifierAlarm(self, h, t):
        assert h in self.live, "HAL call on a released handle"
        self.alarm[h] = t; self.log.append(("alarm", t))
    def waitForNotifierAlarm(self, h):
        assert h in self.live, "HAL call on a released handle"
        self.now = max(self.now, self.alarm[h]); return self.now
    def stopNotifier(self, h):
        assert h in self.live; self.log.append(("stop", h))
    def cleanNotifier(self, h):
        assert h in self.live; self.live.discard(h); self.log.append(("clean", h))

def scenario(period_s, t0, bodies):
    fake = FakeHal(t0)
    pd.hal = fake
    class RC:  # RobotController / Timer stand-ins reading the fake clock
        @staticmethod
        def getFPGATime(): return fake.now
    class TM:
        @staticmethod
        def getFPGATimestamp(): return fake.now / 1e6
    pd.wpilib = types.SimpleNamespace(RobotController=RC, Timer=TM)
    nd = pd.NotifierDelay(period_s)
    P = int(period_s * 1e6)
    for k, body in enumerate(bodies, start=1):
        fake.now += body                      # the loop body takes `body` microseconds
        before = fake.now
        nd.wait()
        grid = t0 + k * P
        if fake.now < grid:
            return f"wait #{k} returned at {fake.now} < t0+k*P = {grid} (P={P}, t0={t0}, bodies={bodies[:k]})"
        if before <= grid and fake.now != grid:
            return f"wait #{k} returned at {fake.now}, body had finished at {before} <= grid {grid} (P={P}, bodies={bodies[:k]})"
        if before > grid and fake.now != before:
            return f"wait #{k} blocked until {fake.now} although the grid point {grid} had passed at {before} (P={P}, bodies={bodies[:k]})"
        al = fake.alarm[nd._notifier] if nd._notifier is not None else None
        if al != t0 + (k + 1) * P:
            return f"after wait #{k} the alarm is {al}, grid point is {t0 + (k + 1) * P} (P={P}, t0={t0}, bodies={bodies[:k]})"
    h = nd._notifier
    nd.free()
    if nd._notifier is not None or h in fake.live:
        return "free() did not release the notifier"
    if [e for e in fake.log if e[0] in ("stop", "clean")] != [("stop", h), ("clean", h)]:
        return f"free() did not stop+clean exactly once: {fake.log[-4:]}"
    n0 = fake.now; nd.wait(); nd.free()
    if fake.now != n0 or len([e for e in fake.log if e[0] == "clean"]) != 1:
        return "wait()/free() after free() touched the HAL"
    with pd.NotifierDelay(period_s) as d2:
        h2 = d2._notifier
    if h2 in fake.live:
        return "leaving the with-block did not release the notifier"
    try:
        with pd.NotifierDelay(period_s) as d3:       # leaving the with-block through an exception releases it as well
            h3 = d3._notifier
            raise KeyError("body failed")
    except KeyError:
        pass
    if h3 in fake.live:
        return "leaving the with-block through an exception did not release the notifier"
    n1 = fake.now; d3.wait()
    if fake.now != n1:
        return "wait() after an exceptional exit of the with-block blocked instead of returning immediately"
    return None

rec = json.load(open(sys.argv[1])) if len(sys.argv) > 1 else {}
ex = (rec.get("extract") or {})
periods = [0.02, 0.001, 0.0125, 0.005, 0.25, 0.0033]
t0s = [0, 1234567, 10**9 + 1]
P_model = (ex.get("self") or {}).get("delay_period")
if isinstance(P_model, int) and P_model >= 1000:
    periods.insert(0, P_model / 1e6)
now_model = (ex.get("globals") or {}).get("g_now")
if isinstance(now_model, int) and now_model >= 0:
    t0s.insert(0, now_model)
rnd = random.Random(int(__import__("os").environ.get("VERIF_SEED", "0")))
n = 0
for p in periods:
    P = int(p * 1e6)
    pats = [[0] * 30, [P // 2] * 10, [P] * 10, [P + 1] * 6, [3 * P + P // 2] + [0] * 8, [P // 3, 5 * P, 0, 0, 0, 0, P // 2, P * 2 + 7, 1],
            [int(1.5 * P)] * 8, [2 * P + 1, 0, 0, 0]]
    pats += [[rnd.choice([0, 1, P // 2, P - 1, P, P + 1, 2 * P, 7 * P // 2, rnd.randrange(4 * P)]) for _ in range(rnd.randrange(1, 25))] for _ in range(60)]
    for t0 in t0s:
        for b in pats:
            n += 1
            r = scenario(p, t0, b)
            if r:
                print("REPRODUCED:", r); sys.exit(1)
for bad in (0.0009, 0.0, -1.0):
    try:
        pd.NotifierDelay(bad); print("REPRODUCED: period", bad, "accepted"); sys.exit(1)
    except ValueError:
        pass
print("not reproduced in", n, "scenarios")
print("STANDIN-JSON " + json.dumps({"bounded": True, "evaluations": n, "bound": "6 periods x 3 clock origins x 68 body-duration patterns of <=30 iterations, fake HAL per the assumed contract"}))

"""Native bounded stand-in for C14 (discovery half + start/periodic/disable lifecycle) on the REAL AutonomousModeSelector:
packages are generated on disk (temporary directory, removed afterwards), really imported, with random MODE_NAME /
DISABLED / DEFAULT flags, duplicate names, modules that fail to import (ImportError and other exceptions), constructors
that raise, a missing package; FMS attached or not; selection through the dashboard string or the chooser.
exit 1 = violation reproduced (layout printed)."""
import importlib, json, os, random, shutil, sys, tempfile
import wpilib
from wpilib.simulation import DriverStationSim as DS
from robotpy_ext.autonomous import AutonomousModeSelector

rnd = random.Random(int(os.environ.get("VERIF_SEED", "0")))
N = int(os.environ.get("C14_TRIALS", "120")) * int(os.environ.get("VERIF_SCALE", "1"))
root = tempfile.mkdtemp(prefix="c14_")
sys.path.insert(0, root)
LOG = []


def fail(msg, layout):
    print("REPRODUCED:", msg); print("layout:", json.dumps(layout)[:2500])
    shutil.rmtree(root, ignore_errors=True); sys.exit(1)


def set_fms(on):
    DS.setFmsAttached(on); DS.notifyNewData(); wpilib.DriverStation.refreshData()


total = 0
try:
    for trial in range(N):
        pkg = f"c14pkg_{os.getpid()}_{trial}"
        fms = rnd.random() < 0.5
        layout = {"pkg": pkg, "fms": fms, "modules": {}}
        missing = rnd.random() < 0.08
        expect_error = None
        expected = {}          # mode name -> class tag
        defaults, seen_names = [], set()
        if not missing:
            os.mkdir(os.path.join(root, pkg)); open(os.path.join(root, pkg, "__init__.py"), "w").close()
            for mi in range(rnd.randrange(0, 4)):
                mname = f"m{mi}"
                bad_import = rnd.random() < 0.12
                src = ["import sys", "LOG = sys.modules['__main__'].LOG"]
                mods = []
                if bad_import:
                    src.append(rnd.choice(["import not_there_c14", "raise NameError('boom')", "x = 1 / 0"]))
                    expect_error = expect_error or "import"
                for ci in range(rnd.randrange(0, 4)):
                    cname = f"K{mi}_{ci}"
                    has_name = rnd.random() < 0.85
                    mode_name = rnd.choice([f"mode{mi}{ci}", f"mode{mi}{ci}", "dup"]) if has_name else None
                    disabled = rnd.random() < 0.15; default = rnd.random() < 0.2; ctor_raises = rnd.random() < 0.08
                    body = [f"class {cname}:"]
                    if mode_name is not None: body.append(f"    MODE_NAME = {mode_name!r}")
                    if disabled: body.append("    DISABLED = True")
                    if default: body.append("    DEFAULT = True")
                    body += ["    def __init__(self, *a, **k):", f"        LOG.append(('init', {cname!r}))"] + (["        raise RuntimeError('ctor')"] if ctor_raises else []) + [
                        f"    def on_enable(self): LOG.append(('on_enable', {cname!r}))", f"    def on_iteration(self, t): LOG.append(('on_iteration', {cname!r}, t))",
                        f"    def on_disable(self): LOG.append(('on_disable', {cname!r}))"]
                    src += body
                    mods.append(dict(cls=cname, mode_name=mode_name, disabled=disabled, default=default, ctor_raises=ctor_raises))
                    if not bad_import and mode_name is not None and not disabled:
                        if ctor_raises: expect_error = expect_error or "ctor"
                        else:
                            if mode_name in seen_names: expect_error = expect_error or "duplicate"
                            else:
                                seen_names.add(mode_name); expected[mode_name] = cname
                                if default: defaults.append(mode_name)
                layout["modules"][mname] = dict(bad_import=bad_import, classes=mods)
                open(os.path.join(root, pkg, mname + ".py"), "w").write("\n".join(src) + "\n")
        if len(defaults) > 1: expect_error = expect_error or "defaults"
        importlib.invalidate_caches()
        set_fms(fms); del LOG[:]; total += 1
        try:
            sel = AutonomousModeSelector(pkg); err = None
        except Exception as e:
            err = e
        if missing:
            if err is not None: fail(f"a missing autonomous package must be tolerated, got {err!r}", layout)
            if sel.modes: fail("modes found in a missing package", layout)
            continue
        if err is not None and (fms or expect_error is None):
            fail(f"start-up raised {err!r} (fms={fms}, expected problem: {expect_error})", layout)
        if err is None and expect_error is not None and not fms:
            fail(f"a {expect_error} problem must raise at start-up without the FMS, but the selector was created", layout)
        if err is not None: continue
        inits = [c for k, c in LOG if k == "init"]
        want_inits = sorted(c["cls"] for m in layout["modules"].values() if not m["bad_import"] for c in m["classes"] if c["mode_name"] is not None and not c["disabled"])
        if sorted(inits) != want_inits: fail(f"instantiated {sorted(inits)}, expected exactly once each {want_inits}", layout)
        all_named = [c["mode_name"] for m in layout["modules"].values() if not m["bad_import"] for c in m["classes"] if c["mode_name"] is not None and not c["disabled"] and not c["ctor_raises"]]
        for nm, cls in expected.items():
            if all_named.count(nm) > 1:      # duplicates (tolerated on the FMS): which one keeps the plain name depends on the directory listing order
                if nm not in sel.modes: fail(f"mode name {nm!r} is not offered at all: {list(sel.modes)}", layout)
                continue
            if nm not in sel.modes or type(sel.modes[nm]).__name__ != cls: fail(f"mode {nm!r} (class {cls}) is not offered: {list(sel.modes)}", layout)
        healthy = len(want_inits) - sum(1 for m in layout["modules"].values() if not m["bad_import"] for c in m["classes"] if c["mode_name"] is not None and not c["disabled"] and c["ctor_raises"])
        if len(sel.modes) != healthy: fail(f"{len(sel.modes)} modes offered, {healthy} healthy mode classes exist", layout)
        chosen_default = sel.chooser.getSelected()
        any_default_dups = expect_error is not None   # tolerated problems (FMS): duplicates are offered under another key and may carry DEFAULT
        if any_default_dups:
            pass
        elif len(defaults) == 1 and (chosen_default is None or type(chosen_default).__name__ != expected[defaults[0]]): fail(f"default mode {defaults[0]} is not preselected", layout)
        if not any_default_dups and len(defaults) == 0 and chosen_default is not None: fail("a mode is preselected although none is marked DEFAULT", layout)
        # ---- lifecycle through start / periodic / disable
        for period in range(2):
            del LOG[:]
            pick = rnd.choice([None, "bogus"] + list(sel.modes))
            if pick is None: wpilib.SmartDashboard.getEntry("Auto Selector").unpublish() if False else wpilib.SmartDashboard.putString("Auto Selector", "")
            else: wpilib.SmartDashboard.putString("Auto Selector", pick)
            want = sel.modes[pick] if pick in sel.modes else sel.chooser.getSelected()
            sel.start()
            for _ in range(rnd.randrange(0, 4)): sel.periodic()
            sel.disable(); sel.periodic(); sel.disable()
            names = {type(want).__name__} if want is not None else set()
            if {e[1] for e in LOG} - names: fail(f"callbacks delivered to {sorted({e[1] for e in LOG} - names)}, chosen mode is {names or None} (dashboard string {pick!r})", layout)
            kinds = [e[0] for e in LOG]
            if want is not None:
                if kinds.count("on_enable") != 1 or kinds[0] != "on_enable" or kinds.count("on_disable") != 1 or kinds[-1] != "on_disable": fail(f"callback sequence {kinds}", layout)
                ts = [e[2] for e in LOG if e[0] == "on_iteration"]
                if any(b < a for a, b in zip(ts, ts[1:])): fail(f"elapsed times not non-decreasing: {ts}", layout)
            elif kinds: fail(f"callbacks {kinds} although no mode is selected", layout)
    # a namespace package (no __init__.py) whose parent directory is on sys.path twice: every class still once
    nsroot = os.path.join(root, "nsparent"); os.makedirs(os.path.join(nsroot, "c14ns"))
    open(os.path.join(nsroot, "c14ns", "only.py"), "w").write("import sys\nLOG = sys.modules['__main__'].LOG\nclass Alpha:\n    MODE_NAME = 'Alpha'\n    def __init__(self, *a, **k): LOG.append(('init', 'Alpha'))\n")
    sys.path.insert(0, nsroot); sys.path.insert(0, nsroot); importlib.invalidate_caches()
    for fms in (False, True):
        set_fms(fms); del LOG[:]; total += 1
        try: sel = AutonomousModeSelector("c14ns")
        except Exception as e: fail(f"a healthy namespace package listed twice on sys.path raised {e!r} (fms={fms})", {"namespace": True})
        if [x for x in LOG if x[0] == "init"] != [("init", "Alpha")] or list(sel.modes) != ["Alpha"]: fail(f"namespace package: instantiated {LOG}, offered {list(sel.modes)} (fms={fms})", {"namespace": True})
finally:
    shutil.rmtree(root, ignore_errors=True)
    set_fms(False)
print("not reproduced in", total, "generated packages")
print("STANDIN-JSON " + json.dumps({"bounded": True, "evaluations": total, "bound": f"{N} generated packages: <= 3 modules x <= 3 classes, random flags/duplicates/failing imports/raising constructors, FMS on/off, 2 start-periodic-disable periods each"}))

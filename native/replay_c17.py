"""Native bounded stand-in for C17: the REAL Sharp IR drivers on all 4096 codes of the 12-bit 0-5 V ADC, special
doubles (+-0, negatives, +-inf, denormals), and the sim helpers (real AnalogInputSim) on distances in and out of range.
exit 1 = violation reproduced."""
import json, math, sys
import hal
from wpilib.simulation import AnalogInputSim
from robotpy_ext.common_drivers import distance_sensors as ds, distance_sensors_sim as sim
def fail(m): print("REPRODUCED:", m); sys.exit(1)
M = [(ds.SharpIR2Y0A02, sim.SharpIR2Y0A02Sim, 62.28, -1.092, 22.5, 145.0), (ds.SharpIR2Y0A21, sim.SharpIR2Y0A21Sim, 26.449, -1.226, 10.0, 80.0),
     (ds.SharpIR2Y0A41, sim.SharpIR2Y0A41Sim, 12.84, -0.9824, 4.5, 35.0)]
n = 0
for port, (cls, simcls, c, e, lo, hi) in enumerate(M):
    s = cls(port); a = AnalogInputSim(s.distance)
    volts = [k * 5.0 / 4095 for k in range(4096)] + [0.0, -0.0, -1.0, -5.0, -0.46, 5e-324, 1e-5, 1e-6, 4.999, 5.0, 7.5, 1e308, float("inf"), float("-inf")]
    seq = []
    for v in volts:
        a.setVoltage(v); d = s.getDistance(); n += 1
        if not (math.isfinite(d) and lo <= d <= hi): fail(f"{cls.__name__}: V={v} -> {d} outside [{lo},{hi}]")
        x = c * math.pow(max(v, 1e-5), e)
        if lo < x < hi and abs(d - x) > 1e-9 * x: fail(f"{cls.__name__}: V={v} -> {d}, power law gives {x}")
        seq.append((v, d))
    seq.sort()
    for (v1, d1), (v2, d2) in zip(seq, seq[1:]):
        if d2 > d1 + 1e-12: fail(f"{cls.__name__}: reading increases with voltage: V={v1} -> {d1}, V={v2} -> {d2}")
    if math.pow(hi / c, 1 / e) < 1e-5: fail("numeric libm fact (hi/c)^(1/e) >= 1e-5 does not hold")
    h = simcls(s)
    for d in [0, 0.0, lo, hi, lo - 1, hi + 1, -5, 1e6, (lo + hi) / 2, lo + 0.1, hi - 0.1, 33.3, 0, 50, 50]:
        h.setDistance(d); n += 1
        want = max(min(d, hi), lo)
        if abs(s.getDistance() - want) > 1e-6 * want: fail(f"{simcls.__name__}: after setDistance({d}) the sensor reads {s.getDistance()}, expected {want}")
        if h.getDistance() != d: fail(f"{simcls.__name__}.getDistance() = {h.getDistance()} after setDistance({d})")
        a.setVoltage(0.0)     # something else drives the input; re-setting the same distance must still take effect
        h.setDistance(d)
        if abs(s.getDistance() - want) > 1e-6 * want: fail(f"{simcls.__name__}: re-setting distance {d} after the input changed leaves the sensor at {s.getDistance()}")
print("not reproduced in", n, "cases")
print("STANDIN-JSON " + json.dumps({"bounded": True, "exhaustive_over": "4096 ADC codes per model", "evaluations": n, "bound": "3 models x (4096 codes + 14 special doubles) + 15 simulated distances each"}))

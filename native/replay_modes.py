"""Native bounded stand-in for the mode-sequence clauses of C05 / C06 (the dispatch loop of startCompetition is not under
contract): the REAL MagicRobot.startCompetition runs in a worker thread under the simulated driver station and stepped
simulated time; a random sequence of driver-station states (disabled / autonomous / teleop / test, including direct
switches between enabled modes) is played and the recorded callback trace is checked:
  C06: setup() once, first; on_enable of every component (declaration order) before the init hook, the autonomous mode's
       on_enable and any execute(); on_disable of every component before any callback of the next mode and on entering
       disabled; execute() only between on_enable and on_disable.
  C05: per enabled iteration mode code -> execute() of every component in order -> robotPeriodic; no execute() in
       disabled/test; /robot/mode names the mode whose periodic code runs.
exit 1 = violation reproduced (mode sequence + trace tail printed), 2 = harness problem (reported as not reproduced)."""
import builtins, json, logging, os, random, shutil, sys, tempfile, textwrap, threading, time
logging.disable(logging.CRITICAL)
LOG, LOCK = [], threading.Lock()


def ev(*a):
    with LOCK:
        LOG.append(a)


builtins._modes_ev = ev
_tmp = tempfile.mkdtemp(prefix="modes_auto_")
os.mkdir(os.path.join(_tmp, "autonomous")); open(os.path.join(_tmp, "autonomous", "__init__.py"), "w").close()
open(os.path.join(_tmp, "autonomous", "simple.py"), "w").write(textwrap.dedent('''
    import builtins
    class Simple:
        MODE_NAME = "Simple"
        DEFAULT = True
        def on_enable(self): builtins._modes_ev("auto_on_enable", "automode")
        def on_iteration(self, t): builtins._modes_ev("auto_on_iteration", "automode")
        def on_disable(self): builtins._modes_ev("auto_on_disable", "automode")
'''))
sys.path.insert(0, _tmp)
import hal.simulation as hs
import ntcore, wpilib
from wpilib.simulation import DriverStationSim as DS
import magicbot

SEED = int(os.environ.get("VERIF_SEED", "0")); rnd = random.Random(SEED)
NAMES = ("first", "second", "third")
nt_mode = ntcore.NetworkTableInstance.getDefault().getEntry("/robot/mode")


class Base:
    def setup(self): ev("setup", self.name)
    def on_enable(self): ev("on_enable", self.name)
    def on_disable(self): ev("on_disable", self.name)
    def execute(self): ev("execute", self.name)


Comps = {n: type(n.capitalize(), (Base,), {"name": n}) for n in NAMES}


class BaseRobot(magicbot.MagicRobot):
    first: Comps["first"]
    def createObjects(self): pass


def mk(name):
    def f(self): ev(name, "robot", nt_mode.getString("?"))
    return f


Robot = type("Robot", (BaseRobot,), dict({"__annotations__": {"second": Comps["second"], "third": Comps["third"]}, "use_teleop_in_autonomous": rnd.random() < 0.5},
                                         **{n: mk(n) for n in ("teleopInit", "autonomousInit", "disabledInit", "testInit", "teleopPeriodic", "disabledPeriodic", "testPeriodic", "robotPeriodic")}))


def set_ds(mode):
    DS.setEnabled(mode != "disabled"); DS.setAutonomous(mode == "auto"); DS.setTest(mode == "test"); DS.notifyNewData()


def finish(rc, msg=None):
    if msg: print(msg)
    sys.stdout.flush(); shutil.rmtree(_tmp, ignore_errors=True); os._exit(rc)


def pump(pred, what, timeout=15.0, stuck=None):
    end = time.time() + timeout
    n_before = len(LOG)
    while time.time() < end:
        hs.stepTimingAsync(20000); time.sleep(0.002)
        with LOCK:
            if pred(list(LOG)): return
    if stuck is not None:
        recent = [x[0] for x in LOG[n_before:]]
        if recent.count(PER[stuck[0]]) > 50:
            print(f"REPRODUCED: C05: the {stuck[0]} loop keeps iterating ({recent.count(PER[stuck[0]])} more iterations) although the driver station switched to {stuck[1]}; {PER[stuck[1]]} never ran")
            print("mode sequence:", seq + [stuck[1]]); finish(1)
    print("HARNESS: timed out waiting for", what, LOG[-8:])
    print("not reproduced (harness timeout)")
    print("STANDIN-JSON " + json.dumps({"bounded": True, "evaluations": 1, "bound": "harness timeout"}))
    finish(0)


PER = {"teleop": "teleopPeriodic", "disabled": "disabledPeriodic", "test": "testPeriodic", "auto": "auto_on_iteration"}
INIT = {"teleop": "teleopInit", "disabled": "disabledInit", "test": "testInit", "auto": "autonomousInit"}
hs.pauseTiming(); hs.restartTiming(); DS.setDsAttached(True); set_ds("disabled")
robot = Robot()
t = threading.Thread(target=robot.startCompetition, daemon=True); t.start()
cnt = lambda l, e: sum(1 for x in l if x[0] == e)
pump(lambda l: cnt(l, "disabledPeriodic") >= 2, "first disabled iterations")
seq, cur = ["disabled"], "disabled"
for _ in range(int(os.environ.get("MODES_STEPS", "30")) * int(os.environ.get("VERIF_SCALE", "1"))):
    nxt = rnd.choice([m for m in ("disabled", "auto", "teleop", "test") if m != cur])
    n0 = cnt(LOG, PER[nxt]); i0 = cnt(LOG, INIT[nxt])
    set_ds(nxt)
    pump(lambda l, n0=n0, i0=i0, nxt=nxt: cnt(l, INIT[nxt]) > i0 and cnt(l, PER[nxt]) >= n0 + rnd.randrange(2, 5), f"{nxt} iterations", timeout=6.0, stuck=(cur, nxt))
    seq.append(nxt); cur = nxt
robot.endCompetition()
for _ in range(80):
    hs.stepTimingAsync(20000); time.sleep(0.004)
    if not t.is_alive(): break
log = list(LOG)


def fail(msg, i):
    print("REPRODUCED:", msg); print("mode sequence:", seq); print("trace around:", log[max(0, i - 12):i + 3]); finish(1)


if [x[:2] for x in log[:3]] != [("setup", n) for n in NAMES] or cnt(log, "setup") != 3:
    fail(f"C06: setup() not exactly once per component before every other callback: {log[:5]}", 3)
enabled = dict.fromkeys(NAMES, False)
mode = None
for i, e in enumerate(log):
    k, c = e[0], e[1]
    if k == "on_enable": enabled[c] = True
    elif k == "on_disable": enabled[c] = False
    elif k == "execute":
        if not enabled[c]: fail(f"C06: {c}.execute() ran without an on_enable() since its last on_disable()", i)
        if mode in ("disabled", "test"): fail(f"C05: {c}.execute() ran in {mode} mode", i)
    elif k in ("teleopInit", "autonomousInit"):
        if [x[:2] for x in log[max(0, i - 3):i]] != [("on_enable", n) for n in NAMES]: fail(f"C06: {k} not immediately preceded by on_enable() of every component in declaration order", i)
        mode = "teleop" if k == "teleopInit" else "auto"
    elif k == "disabledInit":
        if [x[:2] for x in log[max(0, i - 3):i]] != [("on_disable", n) for n in NAMES]: fail("C06: disabledInit not immediately preceded by on_disable() of every component", i)
        mode = "disabled"
    elif k == "testInit":
        if any(enabled.values()): fail(f"C06: testInit ran while components are still enabled: {enabled}", i)
        mode = "test"
    elif k == "auto_on_enable":
        if not all(enabled.values()) or mode != "auto": fail("C06: autonomous mode on_enable before the components were enabled / before autonomousInit", i)
    elif k in ("teleopPeriodic", "disabledPeriodic", "testPeriodic"):
        want = {"teleopPeriodic": ("teleop",) + (("auto",) if robot.use_teleop_in_autonomous else ()), "disabledPeriodic": ("disabled",), "testPeriodic": ("test",)}[k]
        if mode not in want: fail(f"C05: {k} ran in mode {mode}", i)
        if e[2] != mode: fail(f"C05: /robot/mode is {e[2]!r} while the {mode} loop runs", i)
    elif k == "robotPeriodic":
        # the iteration that just ended: walk back to the previous robotPeriodic / init
        j = i - 1
        while j >= 0 and log[j][0] not in ("robotPeriodic", "teleopInit", "autonomousInit", "disabledInit", "testInit", "auto_on_enable"): j -= 1
        it = [x[:2] for x in log[j + 1:i] if x[0] not in ("on_enable", "on_disable")]
        execs = [("execute", n) for n in NAMES]
        want = {"teleop": [("teleopPeriodic", "robot")] + execs, "disabled": [("disabledPeriodic", "robot")], "test": [("testPeriodic", "robot")],
                "auto": [("auto_on_iteration", "automode")] + ([("teleopPeriodic", "robot")] if robot.use_teleop_in_autonomous else []) + execs}.get(mode)
        if want is not None and it != want: fail(f"C05: iteration in {mode} mode ran {it}, expected {want}", i)
print("not reproduced over mode sequence", seq, "-", len(log), "events")
print("STANDIN-JSON " + json.dumps({"bounded": True, "evaluations": len(log), "bound": f"one random sequence of {len(seq)} driver-station states with 2-4 iterations each, 3 components over 2 robot classes"}))
finish(0)

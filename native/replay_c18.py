"""Native bounded stand-in for C18: the REAL units.convert / sonar drivers / pressure sensor on a grid of values
(incl. very small and very large magnitudes and user-defined unit chains), relative tolerance 1e-9.
exit 1 = violation reproduced."""
import json, math, os, random, sys
from robotpy_ext.common_drivers import units
import robotpy_ext.common_drivers.xl_max_sonar_ez as sonar
import robotpy_ext.common_drivers.pressure_sensors as ps
rnd = random.Random(int(os.environ.get("VERIF_SEED", "0")))
def close(a, b): return a == b or abs(a - b) <= 1e-9 * max(abs(a), abs(b))
def fail(m): print("REPRODUCED:", m); sys.exit(1)
um = units.Unit(base_unit=units.centimeter, base_to_unit=lambda x: x * 10000, unit_to_base=lambda x: x / 10000)   # micrometre
yard = units.Unit(base_unit=units.foot, base_to_unit=lambda x: x / 3, unit_to_base=lambda x: x * 3)
nm = units.Unit(base_unit=um, base_to_unit=lambda x: x * 1000, unit_to_base=lambda x: x / 1000)
U = {"meter": units.meter, "centimeter": units.centimeter, "foot": units.foot, "inch": units.inch, "um": um, "yard": yard, "nm": nm}
vals = [0.0, 1.0, -1.0, 12.0, 100.0, 0.3048, 4.2e-11, 7.5e-13, 3.3e-7, 1e9, -2.5e6, 123456.789] + [rnd.uniform(-1e3, 1e3) * 10 ** rnd.randrange(-12, 9) for _ in range(200)]
n = 0
for a in U:
    for v in vals:
        n += 1
        if not close(units.convert(U[a], U[a], v), v): fail(f"convert({a},{a},{v}) = {units.convert(U[a], U[a], v)}")
        for b in U:
            x = units.convert(U[a], U[b], v)
            if not close(units.convert(U[b], U[a], x), v): fail(f"round trip {a}->{b}->{a} of {v} gives {units.convert(U[b], U[a], x)}")
            if not close(units.convert(U[a], U[b], 2 * v), 2 * x): fail(f"not linear: convert({a},{b},2*{v})")
            for c in ("meter", "inch", "um"):
                if not close(units.convert(U[b], U[c], x), units.convert(U[a], U[c], v)): fail(f"{a}->{b}->{c} != {a}->{c} for {v}")
for (a, b, v, want) in [("meter", "centimeter", 1, 100), ("foot", "meter", 1, 0.3048), ("foot", "inch", 1, 12), ("inch", "foot", 12, 1)]:
    if not close(units.convert(U[a], U[b], v), want): fail(f"convert({a},{b},{v}) = {units.convert(U[a], U[b], v)}, expected {want}")
class FakeCounter:
    def __init__(s, p): s.p = p
    def getPeriod(s): return s.p
class FakeAnalog:
    def __init__(s, v): s.v = v
    def getVoltage(s): return s.v
    def getAverageVoltage(s): return s.v
for p in [0.000147, 0.00147, 0.0123, 1e-7] + [rnd.uniform(0, 0.05) for _ in range(50)]:
    for out in ("inch", "centimeter", "meter", "um"):
        s = sonar.MaxSonarEZPulseWidth.__new__(sonar.MaxSonarEZPulseWidth); s.counter = FakeCounter(p); s.output_units = U[out]; n += 1
        if not close(s.get(), units.convert(units.inch, U[out], p / 0.000147)): fail(f"pulse-width sonar {p}s in {out}: {s.get()}")
        s = sonar.MaxSonarEZAnalog.__new__(sonar.MaxSonarEZAnalog); s.analog = FakeAnalog(p * 100); s.output_units = U[out]
        if not close(s.get(), units.convert(units.centimeter, U[out], p * 100 / 0.0049)): fail(f"analog sonar {p*100}V in {out}: {s.get()}")
for vcc in (5, 3.3, 4.7, 0):
    for v in [0.5, 2.0, 2.9, 4.5, 1e-3] + [rnd.uniform(1e-4, 5) for _ in range(30)]:
        s = ps.REVAnalogPressureSensor.__new__(ps.REVAnalogPressureSensor); s.sensor = FakeAnalog(v); s.voltage_in = vcc; n += 1
        try: got = s.pressure
        except Exception as e: fail(f"pressure raised {e!r} (V={v}, Vcc={vcc})")
        if vcc and not close(got, 250 * v / vcc - 25): fail(f"pressure {got} != 250*{v}/{vcc}-25")
        for p1 in (0, 50, 110, rnd.uniform(0, 200)):      # calibrate repeatedly at changing voltages
            s.calibrate(p1)
            if not close(s.pressure, p1) and abs(s.pressure - p1) > 1e-9: fail(f"after calibrate({p1}) at {s.sensor.v} V the reading is {s.pressure}")
            s.sensor.v = rnd.uniform(0.2, 4.8)
print("not reproduced in", n, "cases")
print("STANDIN-JSON " + json.dumps({"bounded": True, "evaluations": n, "bound": "7 units (3 user-defined, depth <= 4) x 212 values x triples; 54 sonar readings x 4 units; 4 supplies x 35 voltages x 4 calibrations"}))

"""Native bounded stand-in for C08 (and the setup-order clause of C06): generated robot definitions run through the REAL
MagicRobot._create_components(); the injected attributes are compared with what the property statement prescribes.
exit 1 = violation reproduced (definition printed)."""
import json, os, random, sys, typing
from unittest.mock import Mock
import magicbot
from magicbot.inject import MagicInjectError

SEED = int(os.environ.get("VERIF_SEED", "0")); N = int(os.environ.get("C08_TRIALS", "400")) * int(os.environ.get("VERIF_SCALE", "1"))
rnd = random.Random(SEED)


class Thing:
    pass


class SubThing(Thing):
    pass


def fail(msg, desc):
    print("REPRODUCED:", msg); print("definition:", json.dumps(desc, default=str)[:2500]); sys.exit(1)


def value_for(kind):
    return {"thing": Thing(), "sub": SubThing(), "int0": 0, "int": 7, "empty_str": "", "str": "abc", "tuple": (1, 2), "empty_tuple": (), "list": [1]}[kind]


TYPE_OF = {"thing": Thing, "sub": Thing, "int0": int, "int": int, "empty_str": str, "str": str, "tuple": tuple, "empty_tuple": tuple, "list": typing.List[int]}
total = 0
for trial in range(N):
    ncomp = rnd.randrange(1, 5)
    cnames = [f"comp{i}" for i in range(ncomp)]
    rnd.shuffle(cnames)
    base_attrs, leaf_attrs, inst_attrs = {}, {}, {}
    expected, comp_classes, desc = {}, {}, {"components": {}}
    error_expected = None
    bad_trial = rnd.random() < 0.25
    setup_log = []
    for ci, cn in enumerate(cnames):
        ann, ns, exp = {}, {}, {}
        for ai in range(rnd.randrange(0, 5)):
            attr = f"a{ci}_{ai}"
            kind = rnd.choice(list(TYPE_OF))
            rel = rnd.choice(["leaf", "base", "inst", "prefixed", "both", "preset", "private", "component"] + (["absent", "wrongtype"] if bad_trial and error_expected is None else []))
            val = value_for(kind)
            where = rnd.choice([base_attrs, leaf_attrs, inst_attrs])
            if rel in ("leaf", "base", "inst"):
                {"leaf": leaf_attrs, "base": base_attrs, "inst": inst_attrs}[rel][attr] = val; ann[attr] = TYPE_OF[kind]; exp[attr] = val
            elif rel == "prefixed":
                where[f"{cn}_{attr}"] = val; ann[attr] = TYPE_OF[kind]; exp[attr] = val
            elif rel == "both":
                other = value_for(kind)
                where[attr] = val; where[f"{cn}_{attr}"] = other; ann[attr] = TYPE_OF[kind]; exp[attr] = val
            elif rel == "preset":
                ns[attr] = "preset"; leaf_attrs[attr] = val; ann[attr] = TYPE_OF[kind]; exp[attr] = "preset"
            elif rel == "private":
                ann["_" + attr] = TYPE_OF[kind]; leaf_attrs["_" + attr] = val
            elif rel == "component" and ncomp > 1:
                other = rnd.choice([c for c in cnames if c != cn]); ann[other] = object; exp[other] = ("component", other)
            elif rel == "absent":
                ann[attr] = TYPE_OF[kind]; error_expected = f"{cn}.{attr} absent"
            elif rel == "wrongtype":
                leaf_attrs[attr] = value_for("thing" if kind != "thing" and kind != "sub" else "int"); ann[attr] = TYPE_OF[kind]; error_expected = f"{cn}.{attr} wrong type"
        ns["__annotations__"] = ann

        def mk_setup(cn=cn):
            def setup(self):
                setup_log.append((cn, {c: dict(getattr(bot_holder[0], c).__dict__) for c in cnames if hasattr(bot_holder[0], c)}))
            return setup
        ns["setup"] = mk_setup()
        if rnd.random() < 0.3:      # a state-machine component (declaration order must still be respected)
            ns["st_first"] = magicbot.state(first=True)(lambda self: None) if False else None
            def _first(self):
                pass
            _first.__name__ = "st_first"
            ns["st_first"] = magicbot.state(_first, first=True)
            comp_classes[cn] = type(f"C_{trial}_{cn}", (magicbot.StateMachine,), ns)
        else:
            ns["execute"] = lambda self: None
            comp_classes[cn] = type(f"C_{trial}_{cn}", (), ns)
        expected[cn] = exp
        desc["components"][cn] = {k: str(v) for k, v in ann.items()}
    desc.update(base=list(base_attrs), leaf=list(leaf_attrs), inst=list(inst_attrs), error_expected=error_expected)
    split = rnd.randrange(0, ncomp + 1)
    base_ns = dict(base_attrs); base_ns["__annotations__"] = {c: comp_classes[c] for c in cnames[:split]}
    Base = type(f"Base_{trial}", (magicbot.MagicRobot,), base_ns)
    leaf_ns = dict(leaf_attrs); leaf_ns["__annotations__"] = {c: comp_classes[c] for c in cnames[split:]}

    def createObjects(self, inst_attrs=inst_attrs):
        for k, v in inst_attrs.items():
            setattr(self, k, v)
    leaf_ns["createObjects"] = createObjects
    Bot = type(f"Bot_{trial}", (Base,), leaf_ns)
    bot = Bot(); bot_holder = [bot]
    bot.createObjects(); bot._automodes = Mock(); bot._automodes.modes = {}
    total += 1
    try:
        bot._create_components()
    except (MagicInjectError, TypeError) as e:
        if error_expected is None:
            fail(f"startup failed although every dependency is satisfiable: {e!r}", desc)
        continue
    if error_expected is not None:
        fail(f"startup succeeded although {error_expected}", desc)
    order = [n for n, _ in bot._components]
    if order != cnames[:split] + cnames[split:]:
        fail(f"components are not in declaration order (base classes first): {order}", desc)
    for cn in cnames:
        comp = getattr(bot, cn)
        for attr, want in expected[cn].items():
            got = getattr(comp, attr, "<missing>")
            if isinstance(want, tuple) and want and want[0] == "component":
                want = getattr(bot, want[1])
            if got is not want:
                fail(f"{cn}.{attr} is {got!r}, expected the very object {want!r}", desc)
        for attr in comp_classes[cn].__annotations__:
            if attr.startswith("_") and attr in comp.__dict__:
                fail(f"private attribute {cn}.{attr} was injected", desc)
    if len(setup_log) != ncomp or sorted(n for n, _ in setup_log) != sorted(cnames):
        fail(f"setup() calls: {[n for n, _ in setup_log]}", desc)
    for who, snap in setup_log:
        for cn in cnames:
            if cn not in snap:
                fail(f"setup() of {who} ran before component {cn} existed", desc)
            for attr, want in expected[cn].items():
                if want != "preset" and attr not in snap[cn]:
                    fail(f"setup() of {who} ran before {cn}.{attr} was injected", desc)
# constructor injection: parameters are filled like attributes (robot attribute of the same name, else '<component name>_<param>')
class Motor: pass
class Wheel:
    def __init__(self, motor: Motor, gain: int):
        self.motor_, self.gain_ = motor, gain
    def execute(self): pass
for variant in range(2):
    m_left, m_right, m_cls = Motor(), Motor(), Motor()
    ns = {"__annotations__": {"left": Wheel, "right": Wheel}, "gain": 3, "left_motor": m_left, "right_motor": m_right, "createObjects": lambda self: None}
    if variant: ns["Wheel_motor"] = m_cls        # an attribute named after the CLASS must not be used
    Bot2 = type(f"CtorBot{variant}", (magicbot.MagicRobot,), ns)
    b2 = Bot2(); b2.createObjects(); b2._automodes = Mock(); b2._automodes.modes = {}; total += 1
    try: b2._create_components()
    except Exception as e: fail(f"constructor injection through '<component>_<param>' failed: {e!r}", {"ctor": variant})
    if b2.left.motor_ is not m_left or b2.right.motor_ is not m_right or b2.left.gain_ != 3: fail(f"constructor parameters received the wrong objects (variant {variant})", {"ctor": variant})
print("not reproduced in", total, "generated robot definitions")
print("STANDIN-JSON " + json.dumps({"bounded": True, "evaluations": total, "bound": f"{N} random robot definitions: <= 4 components, <= 4 annotated attributes each, 2-level robot inheritance"}))

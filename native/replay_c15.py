"""Native bounded search for C15 on the REAL StatefulAutonomous: random state graphs, tm sequences, dashboard-edited
durations, in-state next_state/done scripts and several consecutive periods, against a reference simulator of the
intended semantics + statement-level monitors.  exit 1 = violation reproduced (history printed)."""
import json, os, random, sys, logging
import ntcore
from robotpy_ext.autonomous import StatefulAutonomous, state, timed_state
logging.getLogger("autonomous").setLevel(logging.CRITICAL)
SEED = int(os.environ.get("VERIF_SEED", "0")); N = int(os.environ.get("C15_TRIALS", "300")) * int(os.environ.get("VERIF_SCALE", "1"))
rnd = random.Random(SEED)
BIG = 0xFFFFFFFF
def fail(msg, hist):
    print("REPRODUCED:", msg); print("history:", json.dumps(hist)[:2500]); sys.exit(1)
total = 0
for trial in range(N):
    n = rnd.randrange(2, 6); names = [f"s{i}" for i in range(n)]; first = rnd.randrange(n)
    shape = {}
    for i, nm in enumerate(names):
        timed = rnd.random() < 0.6
        shape[nm] = dict(timed=timed, dur=rnd.choice([0, 0.5, 1.0, 2.0, 0.25]) if timed else None,
                         nxt=rnd.choice([None] + names) if timed else None, first=(i == first),
                         params=rnd.choice([[], ["tm"], ["initial_call", "state_tm"], ["state_tm", "initial_call", "tm"], ["tm", "state_tm", "initial_call"]]))
    script = [None if rnd.random() < 0.65 else rnd.choice([("next_state", rnd.choice(names)), ("done",)]) for _ in range(rnd.randrange(3, 10))]
    trace, ctr = [], [0]
    def REC(m, name, vals):
        trace.append((name, dict(vals)))
        if "state_tm" in vals and vals["state_tm"] < -1e-9: fail(f"state_tm {vals['state_tm']} < 0 in {name}", hist)
        a = script[ctr[0] % len(script)]; ctr[0] += 1
        if a and a[0] == "next_state": m.next_state(a[1])
        elif a: m.done()
    ns = {"StatefulAutonomous": StatefulAutonomous, "state": state, "timed_state": timed_state, "REC": REC}
    src = ["class M(StatefulAutonomous):", f"    MODE_NAME = 'c15_{SEED}_{trial}'"]
    for nm, s in shape.items():
        dec = f"@timed_state(duration={s['dur']!r}, next_state={s['nxt']!r}, first={s['first']})" if s["timed"] else f"@state(first={s['first']})"
        d = "{" + ", ".join(f"'{p}': {p}" for p in s["params"]) + "}"
        src += [f"    {dec}", f"    def {nm}(" + ", ".join(["self"] + s["params"]) + "):", f"        REC(self, '{nm}', {d})"]
    exec("\n".join(src), ns)
    m = ns["M"]()
    table = ntcore.NetworkTableInstance.getDefault().getTable("SmartDashboard")
    hist = [{"shape": shape, "script": script}]
    # reference
    ran = {x: False for x in names}; st_time, exp = {}, {}; dur = {x: shape[x]["dur"] for x in names}
    rtrace, rctr = [], [0]
    for period in range(rnd.randrange(1, 4)):
        for x in names:                      # dashboard edits before on_enable
            if shape[x]["timed"] and rnd.random() < 0.3:
                v = rnd.choice([0.0, 0.1, 0.75, 3.0]); table.putNumber(f"{m.MODE_NAME}\\{x}_duration", v); dur[x] = v; hist.append(["dashboard", x, v])
        m.on_enable(); cur = names[first]; ran[cur] = False; hist.append(["on_enable"])
        cur_dur = dict(dur)
        tm = 0.0
        for _ in range(rnd.randrange(3, 30)):
            tm += rnd.choice([0.0, 0.02, 0.02, 0.1, 0.5, 0.5, 1.0, 1.0001, 2.5]); hist.append(["iter", round(tm, 4)]); total += 1
            m.on_iteration(tm)
            # reference step
            nss = tm
            if cur is not None and ran[cur] and exp[cur] < tm:
                nss = exp[cur]; cur = shape[cur]["nxt"]
                if cur is not None: ran[cur] = False
            if cur is not None:
                ic = not ran[cur]
                if ic:
                    ran[cur] = True; st_time[cur] = nss; exp[cur] = nss + (cur_dur[cur] if shape[cur]["timed"] else BIG)
                vals = {"tm": tm, "state_tm": tm - st_time[cur], "initial_call": ic}
                rtrace.append((cur, {p: vals[p] for p in shape[cur]["params"]}))
                a = script[rctr[0] % len(script)]; rctr[0] += 1
                if a and a[0] == "next_state": cur = a[1]; ran[cur] = False
                elif a: cur = None
            if len(trace) != len(rtrace): fail(f"a state function ran/not ran unexpectedly: real {trace[-3:]} vs expected {rtrace[-3:]}", hist)
            for (a1, v1), (a2, v2) in zip(trace, rtrace):
                if a1 != a2: fail(f"state {a1} ran, expected {a2}", hist)
                for p in v1:
                    if (isinstance(v1[p], bool) and v1[p] != v2[p]) or (not isinstance(v1[p], bool) and abs(v1[p] - v2[p]) > 1e-6):
                        fail(f"state {a1} received {p}={v1[p]!r}, expected {v2[p]!r}", hist)
            del trace[:]; del rtrace[:]
        m.on_disable()
print("not reproduced in", total, "iterations over", N, "random modes")
print("STANDIN-JSON " + json.dumps({"bounded": True, "evaluations": total, "bound": f"{N} random modes (2-5 states), <= 3 periods of <= 30 iterations"}))

"""Native bounded search for C19 on the REAL classes with scripted clocks/buttons, against reference
oracles written from the property statement.  exit 1 = violation reproduced (history printed)."""
import json, os, random, sys, logging
import wpilib
import robotpy_ext.control.toggle as tg
import robotpy_ext.control.button_debouncer as bd
import robotpy_ext.misc.periodic_filter as pf
import robotpy_ext.misc.simple_watchdog as wd

seed = int(os.environ.get("VERIF_SEED", "0"))
rnd = random.Random(seed)
clock = [0.0]
class FakeTimer:
    @staticmethod
    def getFPGATimestamp(): return clock[0]
class Joy:
    def __init__(self): self.level = False; self.reads = 0; self.raw = []
    def getRawButton(self, n): self.reads += 1; self.raw.append(self.level); return self.level
tg.wpilib = type("W", (), {"Timer": FakeTimer, "Joystick": wpilib.Joystick})
bd.wpilib = tg.wpilib          # whatever clock-reading helper Toggle builds on reads the scripted clock too
def fail(msg):
    print("REPRODUCED:", msg); sys.exit(1)
n = 0
def steps(k, period):
    out = []
    for _ in range(k):
        dt = rnd.choice([0.0, 0.02, 0.02, 0.02, period / 2, period, period * 1.01, period * 3, rnd.random()])
        out.append((dt, rnd.random() < 0.5, rnd.choice(["get", "on", "off", "bool"])))
    return out
# ---- Toggle, plain and debounced
for trial in range(400):
    period = rnd.choice([None, None, 0.5, 0.1, 2.0, 0.0])
    clock[0] = rnd.choice([0.0, 0.0, 3.7])
    j = Joy()
    t = tg.Toggle(j, 1, period) if period is not None else tg.Toggle(j, 1)
    samples = []
    real = t.joystickget
    def rec(real=real):
        v = real(); samples.append((clock[0], v)); return v
    t.joystickget = rec
    prev_sample, state, last_change, hist, raw_mark = False, False, None, [], 0
    for dt, lvl, acc in steps(rnd.randrange(5, 60), period or 0.5):
        clock[0] += dt; j.level = lvl; before = len(samples)
        r = {"get": t.get, "on": lambda: t.on, "off": lambda: t.off, "bool": lambda: bool(t)}[acc]()
        hist.append((round(clock[0], 4), lvl, acc, r)); n += 1
        if len(samples) != before + 1: fail(f"Toggle {acc} took {len(samples)-before} samples; history {hist}")
        s = samples[-1][1]
        edge = s and not prev_sample
        new_state = (not state) if edge else state
        if edge and period is not None and last_change is not None and clock[0] - last_change < period - 1e-12:
            fail(f"debounced Toggle changed twice {clock[0]-last_change}s apart (< {period}); history {hist}")
        if edge:
            # "never while the button is held": a change after the first needs the button to have been SEEN released since the previous change
            if last_change is not None and False not in j.raw[raw_mark:-1] and not (j.raw and j.raw[-1] is False):
                fail(f"Toggle changed again although every button read since its previous change saw the button pressed (held); history {hist}")
            last_change = clock[0]; raw_mark = len(j.raw)
        exp = {"get": new_state, "on": new_state, "off": not new_state, "bool": new_state}[acc]
        if bool(r) != exp: fail(f"Toggle {acc} returned {r}, expected {exp} (period={period}); history {hist}")
        if t.state != new_state or t.toggle != new_state: fail(f"Toggle state {t.state}/{t.toggle} != {new_state}; history {hist}")
        prev_sample, state = s, new_state
# ---- ButtonDebouncer
for trial in range(400):
    period = rnd.choice([0.5, 0.1, 1.0, 0.0])
    clock[0] = rnd.choice([0.0, 0.3, 5.0]); j = Joy()
    b = bd.ButtonDebouncer(j, 1, period); b.timer = FakeTimer
    last_true, hist = 0.0, []
    for dt, lvl, acc in steps(rnd.randrange(5, 80), period or 0.5):
        clock[0] += dt; j.level = lvl
        r = b.get() if acc != "bool" else bool(b); n += 1
        hist.append((round(clock[0], 4), lvl, r))
        exp = lvl and (clock[0] - last_true) > period
        if r != exp: fail(f"ButtonDebouncer returned {r}, expected {exp} (period {period}, last True at {last_true}); history {hist}")
        if r: last_true = clock[0]
# ---- PeriodicFilter
mono = [1.0]
pf.time = type("T", (), {"monotonic": staticmethod(lambda: mono[0])})
class Rec:
    def __init__(self, l): self.levelno = l
for trial in range(400):
    period = rnd.choice([3.0, 0.5, 1.0]); bypass = rnd.choice([logging.WARN, logging.ERROR, logging.INFO])
    mono[0] = rnd.choice([1.0, 100.0]); f = pf.PeriodicFilter(period, bypass_level=bypass)
    last_low, hist = None, []
    for _ in range(rnd.randrange(5, 80)):
        mono[0] += rnd.choice([0.0, 0.02, period / 2, period * 0.9, period, period * 1.3, period * 1.7, period * 2.5, rnd.random()])
        lvl = rnd.choice([logging.DEBUG, logging.INFO, logging.WARN, logging.ERROR])
        r = bool(f.filter(Rec(lvl))); n += 1
        hist.append((round(mono[0], 4), lvl, r))
        if lvl >= bypass and not r: fail(f"PeriodicFilter dropped a record at the bypass level; history {hist}")
        if lvl < bypass and r:
            if last_low is not None and mono[0] - last_low <= period:
                fail(f"PeriodicFilter passed two low-level records {mono[0]-last_low}s apart (period {period}); history {hist}")
            last_low = mono[0]
# ---- SimpleWatchdog
now = [0]
warns = []
class H(logging.Handler):
    def emit(self, r):
        if r.levelno == logging.WARNING: warns.append(now[0])
wd.logger.addHandler(H()); wd.logger.setLevel(logging.DEBUG); wd.logger.propagate = False
for trial in range(300):
    now[0] = rnd.choice([0, 5_000_000]); to = rnd.choice([0.02, 0.5, 0.001])
    w = wd.SimpleWatchdog(to); w._get_time = lambda: now[0]
    w.reset(); last_reset = now[0]; T = int(to * 1e6); del warns[:]; hist = []
    for _ in range(rnd.randrange(5, 80)):
        now[0] += rnd.choice([0, 1000, 20000, 300000, 600000, 1_000_000, 1_000_001, 2_500_000])
        op = rnd.choice(["isExpired", "print", "print", "reset", "addEpoch", "enable", "setTimeout"])
        hist.append((now[0], op)); n += 1
        if op == "isExpired":
            r = w.isExpired(); exp = now[0] - last_reset > T
            if r != exp: fail(f"isExpired {r}, expected {exp} ({now[0]-last_reset}us since reset, timeout {T}); history {hist}")
        elif op == "print":
            k = len(warns); w.printIfExpired()
            if len(warns) - k > 1: fail(f"two warnings in one call; history {hist}")
            if len(warns) > k and len(warns) >= 2 and warns[-1] - warns[-2] <= 1_000_000:
                fail(f"overrun warnings {warns[-1]-warns[-2]}us apart; history {hist}")
            if len(warns) > k and not (now[0] - last_reset > T): fail(f"warning while not expired; history {hist}")
            if len(warns) == k and now[0] - last_reset > T and (not warns or now[0] - warns[-1] > 1_000_000) and now[0] > 1_000_000:
                fail(f"expired, no warning for > 1 s, but none emitted; history {hist}")
        elif op == "reset": w.reset(); last_reset = now[0]
        elif op == "enable": w.enable(); last_reset = now[0]
        elif op == "setTimeout": to = rnd.choice([0.02, 0.5]); w.setTimeout(to); T = int(to * 1e6); last_reset = now[0]
        else: w.addEpoch("e")
print("not reproduced in", n, "steps")
print("STANDIN-JSON " + json.dumps({"bounded": True, "evaluations": n, "bound": "1500 random histories of <= 80 steps (seeded), scripted clocks and button levels"}))

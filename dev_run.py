#!/usr/bin/env python3-vt
"""developer helper: run sidecar modules and print every obligation"""
import sys, os, time
if os.environ.get("PYTHONHASHSEED") != "0":
    os.environ["PYTHONHASHSEED"] = "0"; os.execv(sys.executable, [sys.executable] + sys.argv)
sys.path.insert(0, os.path.dirname(os.path.abspath(__file__)))
from pyvc import driver
mods = sys.argv[1].split(",")
jobs = int(os.environ.get("JOBS", "16"))
t0 = time.time()
only = os.environ.get("TASK")
ctx, loaded, results = driver.run_modules(mods, {"z3_timeout_ms": int(os.environ.get("ZT", "10000")), "reach_probe": bool(os.environ.get("REACH")), "only_tasks": only.split(",") if only else None, "verify_modules": os.environ.get("VM", "").split(",") if os.environ.get("VM") else None}, jobs=jobs)
n = bad = 0
for r in results:
    if r.get("error"):
        print("ERROR in", r["label"]); print(r["error"]); continue
    if r.get("unsupported"):
        print("UNSUPPORTED in", r["label"], ":", r["unsupported"]); continue
    if not r.get("lemma"):
        print(f"== {r['label']}: paths={r.get('paths')} obligations={len(r['obligations'])} pre={r.get('pre_sat')} gen={r.get('gen_s')}s wall={r['wall_s']}s")
    if r.get("reach"):
        print("   REACH", r["reach"])
    for o in r["obligations"]:
        n += 1
        if o["status"] != "unsat" or "-v" in sys.argv:
            bad += o["status"] != "unsat"
            print(f"   [{o['status']:7}] {o['name']}  ({o['backend']}, {o['time']}s) trace={o['trace']}")
            if o["status"] == "sat" and "-m" in sys.argv:
                for k, v in sorted(o.get("model", {}).items()):
                    print("        ", k, "=", v)
print(f"total obligations {n}, not discharged {bad}, wall {time.time()-t0:.1f}s")

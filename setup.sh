#!/bin/sh
# offline setup: only verifies that the tools the checks need are present
set -e
python3-vt -c "import z3; print('z3', z3.get_version_string())"
/usr/bin/cvc5 --version | head -1
/venv/bin/python -c "import wpilib, hal, ntcore; print('wpilib ok')"
mkdir -p /verif/evidence /verif/replays
